// simfuzz: coverage-guided fuzzing of the simulator (libFuzzer).  The input is the same tape
// rapidcheck generates: (config, program, schedule bytes); the oracle is inside the target
// (an owned, unsuppressed verdict traps).  Coverage feedback comes from nsync's own edges:
// the .so is built with -fsanitize=thread,fuzzer-no-link.
//   SIMFUZZ_SO=<path> SIMFUZZ_PROP=<n> [SIMFUZZ_FAMILY=<n>] [SIMFUZZ_SUPPRESS=sig;sig] ./simfuzz -runs=N corpus/
#include "simrt_c.h"
#include "simrt.h"
#include "../interp/interp.h"
#include <stdio.h>
#include <stdlib.h>
#include <string.h>
#include <regex>
#include <set>
#include <string>
#include <vector>

typedef void (*run_fn) (const uint8_t *, size_t, int, int, interp_result *, char *, size_t);
static run_fn g_run;
static int g_prop, g_family = -1;
static std::set<std::string> g_suppress;
static std::vector<std::regex> g_suppress_re;
static unsigned long g_execs, g_nontrivial, g_suppressed, g_foreign;

static void init () {
	const char *so = getenv ("SIMFUZZ_SO"), *p = getenv ("SIMFUZZ_PROP"), *f = getenv ("SIMFUZZ_FAMILY"), *s = getenv ("SIMFUZZ_SUPPRESS");
	if (!so || !p) { fprintf (stderr, "simfuzz: SIMFUZZ_SO and SIMFUZZ_PROP must be set\n"); exit (2); }
	simrt_load_module (so);
	g_run = (run_fn) simrt_sym ("interp_run");
	g_prop = atoi (p);
	if (f) g_family = atoi (f);
	if (s) {
		std::string str = s; size_t a = 0;
		while (a <= str.size ()) {
			size_t b = str.find (';', a); if (b == std::string::npos) b = str.size ();
			if (b > a) { std::string e = str.substr (a, b - a); if (e.compare (0, 3, "re:") == 0) g_suppress_re.push_back (std::regex (e.substr (3))); else g_suppress.insert (e); }
			a = b + 1;
		}
	}
	atexit ([] () { fprintf (stderr, "SIMFUZZ-STATS execs=%lu nontrivial=%lu suppressed=%lu foreign=%lu\n", g_execs, g_nontrivial, g_suppressed, g_foreign); });
}

extern "C" int LLVMFuzzerTestOneInput (const uint8_t *data, size_t size) {
	static bool inited;
	if (!inited) { inited = true; init (); }
	interp_result r;
	g_run (data, size, g_prop, g_family, &r, NULL, 0);
	g_execs++;
	if (r.nontrivial) g_nontrivial++;
	if (r.v.kind != RT_V_NONE && r.owned) {
		bool sup = g_suppress.count (r.v.sig) > 0;
		for (auto &re : g_suppress_re) if (std::regex_match (r.v.sig, re)) sup = true;
		if (sup) { g_suppressed++; return 0; }
		static char dump[1 << 15];
		g_run (data, size, g_prop, g_family, &r, dump, sizeof dump);
		fprintf (stderr, "SIMFUZZ-VIOLATION sig=%s\n%s\n", r.v.sig, dump);
		fprintf (stderr, "SIMFUZZ-STATS execs=%lu nontrivial=%lu suppressed=%lu foreign=%lu\n", g_execs, g_nontrivial, g_suppressed, g_foreign);
		abort ();   /* SIGABRT: libFuzzer writes the crash artifact (SIGSEGV/SIGILL/... belong to the simulator) */
	} else if (r.v.kind != RT_V_NONE && r.v.kind != RT_V_BUDGET) g_foreign++;
	return 0;
}
