// Smoke driver: random tapes without rapidcheck (debugging aid).
#include "simrt_c.h"
#include "simrt.h"
#include "../interp/interp.h"
#include <stdio.h>
#include <stdlib.h>
#include <string.h>
#include <map>
#include <string>
#include <vector>
typedef void (*run_fn) (const uint8_t *, size_t, int, int, interp_result *, char *, size_t);
int main (int argc, char **argv) {
	if (argc < 5) { fprintf (stderr, "usage: simsmoke <so> <prop> <family|-1> <ncases> [seed] [len]\n"); return 2; }
	simrt_load_module (argv[1]);
	run_fn run = (run_fn) simrt_sym ("interp_run");
	int prop = atoi (argv[2]), fam = atoi (argv[3]); long n = atol (argv[4]);
	uint64_t seed = argc > 5 ? strtoull (argv[5], 0, 0) : 1;
	size_t len = argc > 6 ? (size_t) atoi (argv[6]) : 200;
	std::map<std::string, long> verdicts; long nontriv = 0, owned = 0; unsigned long steps = 0;
	static char dump[1 << 16];
	uint64_t x = seed * 0x9e3779b97f4a7c15ull + 1;
	for (long i = 0; i < n; i++) {
		std::vector<uint8_t> tape (len);
		for (auto &b : tape) { x ^= x << 13; x ^= x >> 7; x ^= x << 17; b = (uint8_t) (x >> 24); }
		interp_result r;
		run (tape.data (), tape.size (), prop, fam, &r, NULL, 0);
		steps += r.st.steps;
		nontriv += r.nontrivial;
		char key[300]; snprintf (key, sizeof key, "%d%s %s", r.v.kind, r.owned ? "*" : "", r.v.sig);
		if (verdicts[key]++ == 0 && r.v.kind != 0) {
			run (tape.data (), tape.size (), prop, fam, &r, dump, sizeof dump);
			printf ("---- case %ld: %s\n%s\n", i, key, dump);
			char fn[200]; snprintf (fn, sizeof fn, "/tmp/smoke_%d_%d_%d.tape", prop, fam, r.v.kind);
			FILE *tf = fopen (fn, "wb"); if (tf) { fwrite (tape.data (), 1, tape.size (), tf); fclose (tf); printf ("tape saved to %s\n", fn); }
		}
		owned += r.owned;
	}
	printf ("cases=%ld nontrivial=%ld owned=%ld avg_steps=%lu\n", n, nontriv, owned, steps / (n ? n : 1));
	for (auto &kv : verdicts) printf ("  %8ld  %s\n", kv.second, kv.first.c_str ());
	return 0;
}
