// simcheck: one shard of a property check on the simulated platform.
// rapidcheck generates the tape (a byte vector), the interpreter in the .so decodes
// it into (config, program, strategy) and runs it on simrt; an owned verdict fails
// the property, rapidcheck shrinks the tape, and the minimal tape is written out.
//
// usage: simcheck --so PATH --prop N [--family F] [--cases N] [--seed S] [--max-size M]
//                 [--suppress sig[,sig...]] --out shard.json
//        simcheck --so PATH --prop N [--family F] --replay TAPEFILE [--out result.json]
#include "simrt_c.h"
#include "simrt.h"
#include "../interp/interp.h"

#include <rapidcheck.h>

#include <stdio.h>
#include <stdlib.h>
#include <string.h>
#include <time.h>
#include <algorithm>
#include <map>
#include <set>
#include <string>
#include <regex>
#include <unordered_set>
#include <vector>

typedef void (*run_fn) (const uint8_t *, size_t, int, int, interp_result *, char *, size_t);
typedef void (*replay_fn) (const uint8_t *, size_t, int, int, const uint8_t *, size_t, interp_result *);

static run_fn g_run;
static replay_fn g_replay;
static int g_prop, g_family = -1;
static std::set<std::string> g_suppress;   // signatures of open known findings: literal strings, or regular expressions prefixed with "re:"
static std::vector<std::regex> g_suppress_re;
static bool is_suppressed (const char *sig) {
	if (g_suppress.count (sig) > 0) return true;
	for (auto &re : g_suppress_re) if (std::regex_match (sig, re)) return true;
	return false;
}

struct Counters {
	uint64_t evaluations = 0, nontrivial = 0, owned_fail = 0, foreign = 0, budget = 0, excluded = 0, suppressed = 0;
	uint64_t steps = 0, sem_blocks = 0, timeouts = 0, cas_fail = 0, clock_moves = 0, frozen = 0, faults = 0, switches = 0, atomics = 0, plains = 0, hb_edges = 0, alloc_failed = 0;
	std::map<std::string, uint64_t> verdict_hist, suppressed_hist, family_hist, strategy_hist, nthreads_hist, sem_hist;
	std::unordered_set<uint64_t> distinct;
	std::vector<std::string> samples;
};
static Counters C;
static std::vector<uint8_t> g_last_fail;
static bool g_have_fail;
static interp_result g_last_fail_res;
static const char *kind_name (int k) {
	static const char *n[] = { "none", "deadlock", "livelock", "budget", "crash", "race", "freed", "deadstack", "oracle", "replaydiv" };
	return (k >= 0 && k <= 9) ? n[k] : "?";
}

static std::string json_escape (const std::string &s) {
	std::string o;
	for (unsigned char c : s) {
		if (c == '"' || c == '\\') { o += '\\'; o += (char) c; }
		else if (c == '\n') o += "\\n";
		else if (c == '\t') o += "\\t";
		else if (c < 0x20) { char b[8]; snprintf (b, sizeof b, "\\u%04x", c); o += b; }
		else o += (char) c;
	}
	return o;
}
static std::string hex (const std::vector<uint8_t> &v) {
	std::string o; char b[4];
	for (uint8_t x : v) { snprintf (b, sizeof b, "%02x", x); o += b; }
	return o;
}
static std::vector<uint8_t> read_file (const char *path) {
	std::vector<uint8_t> v;
	FILE *f = fopen (path, "rb");
	if (!f) { fprintf (stderr, "simcheck: cannot read %s\n", path); exit (2); }
	int c; while ((c = fgetc (f)) != EOF) v.push_back ((uint8_t) c);
	fclose (f);
	return v;
}

// returns true if the case passes (no owned, unsuppressed verdict)
static bool run_one (const std::vector<uint8_t> &tape, bool count) {
	interp_result r;
	g_run (tape.data (), tape.size (), g_prop, g_family, &r, NULL, 0);
	bool owned = r.owned && r.v.kind != RT_V_NONE;
	bool sup = owned && is_suppressed (r.v.sig);
	if (count) {
		C.evaluations += (r.sub_evaluations > 0) ? (uint64_t) r.sub_evaluations : 1;
		C.steps += r.st.steps; C.sem_blocks += r.st.sem_blocks; C.timeouts += r.st.sem_timeouts; C.cas_fail += r.st.cas_fail;
		C.clock_moves += r.st.clock_moves; C.frozen += r.st.frozen; C.faults += r.st.faults_injected; C.switches += r.st.switches;
		C.atomics += r.st.atomics; C.plains += r.st.plains; C.hb_edges += r.st.hb_edges_used; C.alloc_failed += r.st.alloc_failed;
		if (r.v.kind == RT_V_BUDGET || r.st.budget_exceeded) C.budget++;
		if (r.excluded) C.excluded++;
		char fam[32]; snprintf (fam, sizeof fam, "family_%d", r.family); C.family_hist[fam]++;
		char nt[32]; snprintf (nt, sizeof nt, "threads_%d", r.nthreads); C.nthreads_hist[nt]++;
		if (tape.size () > 0) { char st[32]; snprintf (st, sizeof st, "strategy_%d", tape[0] % 6); C.strategy_hist[st]++; }
		if (tape.size () > 5) { char st[32]; snprintf (st, sizeof st, "sem_%d", tape[5] % 3); C.sem_hist[st]++; }
		if (r.v.kind != RT_V_NONE) {
			std::string key = std::string (kind_name (r.v.kind)) + (owned ? (sup ? "(known)" : "(OWNED)") : "(foreign)") + " " + r.v.sig;
			C.verdict_hist[key]++;
			if (!owned && r.v.kind != RT_V_BUDGET) C.foreign++;
		}
		if (sup) { C.suppressed++; C.suppressed_hist[r.v.sig]++; }
		if (r.nontrivial && !sup && r.v.kind != RT_V_BUDGET) {
			uint64_t h = r.prog_hash * 0x9e3779b97f4a7c15ull ^ r.st.trace_hash;
			if (C.distinct.insert (h).second) C.nontrivial++;
			if (C.samples.size () < 3 && (C.nontrivial % 97) == 1) {
				static char dump[1 << 15];
				interp_result r2;
				g_run (tape.data (), tape.size (), g_prop, g_family, &r2, dump, sizeof dump);
				C.samples.push_back (dump);
			}
		}
	}
	if (owned && !sup) {
		g_last_fail = tape; g_have_fail = true;
		g_last_fail_res = r;
		return false;
	}
	return true;
}

static void write_map (FILE *f, const char *name, const std::map<std::string, uint64_t> &m, bool comma) {
	fprintf (f, "  \"%s\": {", name);
	bool first = true;
	for (auto &kv : m) { fprintf (f, "%s\"%s\": %lu", first ? "" : ", ", json_escape (kv.first).c_str (), (unsigned long) kv.second); first = false; }
	fprintf (f, "}%s\n", comma ? "," : "");
}

int main (int argc, char **argv) {
	const char *so = NULL, *out = NULL, *replay = NULL, *hashes_out = NULL;
	long cases = 1000; unsigned long seed = 1; int max_size = 100; bool dump = false;
	if (argc >= 2 && std::string (argv[1]) == "--count-distinct") {
		// merge helper for the driver: number of distinct 64-bit hashes in the given files
		std::vector<uint64_t> all;
		for (int i = 2; i < argc; i++) {
			FILE *f = fopen (argv[i], "rb"); if (!f) continue;
			uint64_t buf[4096]; size_t n;
			while ((n = fread (buf, sizeof (uint64_t), 4096, f)) > 0) all.insert (all.end (), buf, buf + n);
			fclose (f);
		}
		std::sort (all.begin (), all.end ());
		printf ("%zu\n", (size_t) (std::unique (all.begin (), all.end ()) - all.begin ()));
		return 0;
	}
	for (int i = 1; i < argc; i++) {
		std::string a = argv[i];
		auto next = [&] () -> const char * { if (i + 1 >= argc) { fprintf (stderr, "missing value for %s\n", a.c_str ()); exit (2); } return argv[++i]; };
		if (a == "--so") so = next ();
		else if (a == "--prop") g_prop = atoi (next ());
		else if (a == "--family") g_family = atoi (next ());
		else if (a == "--cases") cases = atol (next ());
		else if (a == "--seed") seed = strtoul (next (), 0, 0);
		else if (a == "--max-size") max_size = atoi (next ());
		else if (a == "--out") out = next ();
		else if (a == "--hashes") hashes_out = next ();
		else if (a == "--replay") replay = next ();
		else if (a == "--dump") dump = true;
		else if (a == "--suppress") {
			std::string s = next (); size_t p = 0;
			while (p <= s.size ()) { size_t q = s.find (';', p); if (q == std::string::npos) q = s.size (); if (q > p) { std::string e = s.substr (p, q - p); if (e.compare (0, 3, "re:") == 0) g_suppress_re.push_back (std::regex (e.substr (3))); else g_suppress.insert (e); } p = q + 1; }
		} else { fprintf (stderr, "unknown argument %s\n", a.c_str ()); return 2; }
	}
	if (!so || !g_prop) { fprintf (stderr, "usage: simcheck --so PATH --prop N ...\n"); return 2; }
	simrt_load_module (so);
	g_run = (run_fn) simrt_sym ("interp_run");
	g_replay = (replay_fn) simrt_sym ("interp_replay");
	struct timespec t0; clock_gettime (CLOCK_MONOTONIC, &t0);

	if (replay) {
		std::vector<uint8_t> tape = read_file (replay);
		static char d[1 << 16];
		interp_result r;
		int same = 0; char sig0[160] = "";
		for (int k = 0; k < 3; k++) {
			g_run (tape.data (), tape.size (), g_prop, g_family, &r, d, sizeof d);
			if (k == 0) snprintf (sig0, sizeof sig0, "%s", r.v.sig);
			if (strcmp (sig0, r.v.sig) == 0) same++;
		}
		bool owned = r.owned && r.v.kind != RT_V_NONE;
		bool sup = owned && is_suppressed (r.v.sig);
		if (dump || !out) printf ("%s", d);
		printf ("REPLAY property=C%02d verdict=%s sig=%s owned=%d known=%d deterministic=%d/3\n", g_prop, kind_name (r.v.kind), r.v.sig, owned ? 1 : 0, sup ? 1 : 0, same);
		if (out) {
			FILE *f = fopen (out, "w");
			fprintf (f, "{\"verdict\": \"%s\", \"sig\": \"%s\", \"msg\": \"%s\", \"owned\": %d, \"known\": %d, \"deterministic\": %d, \"dump\": \"%s\"}\n",
				 kind_name (r.v.kind), json_escape (r.v.sig).c_str (), json_escape (r.v.msg).c_str (), owned ? 1 : 0, sup ? 1 : 0, same, json_escape (d).c_str ());
			fclose (f);
		}
		return (owned && !sup) ? 1 : 0;
	}

	char params[200];
	snprintf (params, sizeof params, "seed=%lu max_success=%ld max_size=%d max_discard_ratio=100", seed, cases, max_size);
	setenv ("RC_PARAMS", params, 1);
	bool shrinking = false;
	bool ok = rc::check ("property holds on every generated case", [&] () {
		auto tape = *rc::gen::scale (3.0, rc::gen::arbitrary<std::vector<uint8_t>> ());
		bool pass = run_one (tape, !shrinking);
		if (!pass) shrinking = true;
		RC_ASSERT (pass);
	});
	struct timespec t1; clock_gettime (CLOCK_MONOTONIC, &t1);
	double wall = (double) (t1.tv_sec - t0.tv_sec) + 1e-9 * (double) (t1.tv_nsec - t0.tv_nsec);

	std::string fail_dump, fail_trace_hex;
	int deterministic = 0, failing = 0;
	if (!ok && g_have_fail) {
		static char d[1 << 16];
		interp_result r;
		for (int k = 0; k < 3; k++) {
			g_run (g_last_fail.data (), g_last_fail.size (), g_prop, g_family, &r, d, sizeof d);
			if (strcmp (r.v.sig, g_last_fail_res.v.sig) == 0) deterministic++;
			// "failing": an owned, unlisted verdict again, whatever its signature (a defect that reads uninitialised or
			// recycled memory fails every time, but not always with the same symptom)
			if (r.owned && r.v.kind != RT_V_NONE && !is_suppressed (r.v.sig)) failing++;
		}
		fail_dump = d;
		fail_trace_hex = hex (simrt_last_trace ());
	}
	if (hashes_out) {
		FILE *f = fopen (hashes_out, "wb");
		if (f) { for (uint64_t h : C.distinct) fwrite (&h, sizeof h, 1, f); fclose (f); }
	}
	std::map<std::string, uint64_t> events;
	simrt_events_dump (&events);
	FILE *f = out ? fopen (out, "w") : stdout;
	if (!f) { perror ("simcheck: out"); return 2; }
	fprintf (f, "{\n  \"prop\": %d, \"seed\": %lu, \"cases_requested\": %ld, \"ok\": %s, \"wall_s\": %.3f,\n", g_prop, seed, cases, ok ? "true" : "false", wall);
	fprintf (f, "  \"evaluations\": %lu, \"distinct_nontrivial\": %lu, \"foreign\": %lu, \"budget\": %lu, \"excluded\": %lu, \"suppressed\": %lu,\n",
		 (unsigned long) C.evaluations, (unsigned long) C.distinct.size (), (unsigned long) C.foreign, (unsigned long) C.budget, (unsigned long) C.excluded, (unsigned long) C.suppressed);
	fprintf (f, "  \"totals\": {\"steps\": %lu, \"atomics\": %lu, \"plains\": %lu, \"switches\": %lu, \"sem_blocks\": %lu, \"timeouts\": %lu, \"cas_fail\": %lu, \"clock_moves\": %lu, \"frozen\": %lu, \"faults_injected\": %lu, \"hb_edges_used\": %lu, \"alloc_failed\": %lu},\n",
		 (unsigned long) C.steps, (unsigned long) C.atomics, (unsigned long) C.plains, (unsigned long) C.switches, (unsigned long) C.sem_blocks, (unsigned long) C.timeouts,
		 (unsigned long) C.cas_fail, (unsigned long) C.clock_moves, (unsigned long) C.frozen, (unsigned long) C.faults, (unsigned long) C.hb_edges, (unsigned long) C.alloc_failed);
	write_map (f, "verdicts", C.verdict_hist, true);
	write_map (f, "suppressed_by_known_finding", C.suppressed_hist, true);
	write_map (f, "families", C.family_hist, true);
	write_map (f, "strategies", C.strategy_hist, true);
	write_map (f, "threads", C.nthreads_hist, true);
	write_map (f, "sem_flavours", C.sem_hist, true);
	write_map (f, "events", events, true);
	fprintf (f, "  \"samples\": [");
	for (size_t i = 0; i < C.samples.size (); i++) fprintf (f, "%s\"%s\"", i ? ", " : "", json_escape (C.samples[i]).c_str ());
	fprintf (f, "],\n");
	if (!ok) {
		fprintf (f, "  \"failure\": {\"sig\": \"%s\", \"kind\": \"%s\", \"msg\": \"%s\", \"tape_hex\": \"%s\", \"deterministic\": %d, \"failing\": %d, \"trace_hex\": \"%s\", \"dump\": \"%s\"},\n",
			 json_escape (g_last_fail_res.v.sig).c_str (), kind_name (g_last_fail_res.v.kind), json_escape (g_last_fail_res.v.msg).c_str (),
			 hex (g_last_fail).c_str (), deterministic, failing, fail_trace_hex.c_str (), json_escape (fail_dump).c_str ());
	}
	fprintf (f, "  \"end\": true\n}\n");
	if (out) fclose (f);
	return ok ? 0 : 1;
}
