/* C ABI of the deterministic runtime (simrt).  Three clients:
   - the simulated platform layer that nsync is compiled against (sim_*),
   - the scenario interpreter (rt_*),
   - the driver (through interp entry points only).
   The runtime itself (simrt.cc) is not instrumented.  */
#ifndef VERIF_SIMRT_C_H_
#define VERIF_SIMRT_C_H_

#include <stddef.h>
#include <stdint.h>
#include <time.h>

#if defined(__cplusplus)
extern "C" {
#endif

/* ---------- used by the simulated platform layer (inside nsync) ---------- */
void *sim_malloc (size_t n, const char *file, int line);
void sim_free (void *p);
void *sim_memset (void *p, int c, size_t n);
int sim_clock_gettime (int clk, struct timespec *ts);
long sim_syscall (long nr, ...);

void rt_yield (void);
void *rt_get_waiter (void);
void rt_set_waiter (void *w, void (*dest) (void *));
void rt_panic (const char *s);

/* semaphore flavours, chosen per case */
#define RT_SEM_COUNTING 0 /* runtime-native counting semaphore */
#define RT_SEM_BINARY 1   /* runtime-native binary semaphore (V sets the count to 1) */
#define RT_SEM_FUTEX 2    /* the real nsync_semaphore_futex.c on the modelled futex */
int rt_sem_flavour (void);
void rt_sem_enter (void); /* bracket: inside nsync_mu_semaphore_* nothing is credited to HB */
void rt_sem_exit (void);
void rt_nsem_init (void *s);
void rt_nsem_p (void *s);
int rt_nsem_p_deadline (void *s, int64_t sec, int64_t nsec, int no_deadline);
void rt_nsem_v (void *s);

/* ---------- used by the scenario interpreter ---------- */
#define RT_MAXT 10          /* thread slots incl. main (0) */
#define RT_CLOCK_ID 0xff

/* verdict kinds */
enum {
	RT_V_NONE = 0,
	RT_V_DEADLOCK,     /* quiescent, someone unfinished, after the janitor */
	RT_V_LIVELOCK,     /* all enabled threads spin without any memory change */
	RT_V_BUDGET,       /* step budget exceeded: inconclusive, never a violation */
	RT_V_CRASH,        /* ASSERT null store, SIGSEGV, nsync_panic_ */
	RT_V_RACE,         /* happens-before race */
	RT_V_FREED,        /* access to a freed arena block */
	RT_V_DEADSTACK,    /* access to a dead part of another thread's stack */
	RT_V_ORACLE,       /* raised by the interpreter (rt_fail) */
	RT_V_REPLAYDIV     /* replay diverged: harness problem */
};

/* strategy kinds */
enum { RT_S_RANDOM = 0, RT_S_PCT = 1, RT_S_BYTES = 2, RT_S_REPLAY = 3, RT_S_ADVERSARY = 4 };

typedef struct rt_config_s {
	int strategy;            /* RT_S_* */
	uint64_t seed;           /* RANDOM / PCT */
	int switch_shift;        /* RANDOM: switch with probability 1/2^shift at non-forced points */
	int pct_depth;           /* PCT: d */
	int pct_len;             /* PCT: estimated length k */
	const uint8_t *bytes;    /* BYTES / REPLAY */
	size_t nbytes;
	int freeze_at;           /* <0: no freeze; else step index from which threads freeze at op boundaries */
	int clock_weight;        /* RANDOM: clock is picked with probability 1/clock_weight when enabled (0: only when forced) */
	int sem_flavour;         /* RT_SEM_* */
	int step_budget;
	/* fault injection for the modelled futex: fault[i] applies to the i-th FUTEX_WAIT */
	const uint8_t *futex_faults; /* 0 none, 1 EINTR, 2 EAGAIN, 3 premature ETIMEDOUT (timed waits only), 4 spurious 0 */
	size_t nfutex_faults;
	/* allocation fault: fail the k-th (1-based) sim_malloc whose call site file ends with alloc_fail_file (NULL: any; several suffixes separated by '|') */
	int alloc_fail_k;
	const char *alloc_fail_file;
	int life_off;            /* 1: freed / dead-stack accesses are not judged (properties that do not own them) */
	int hb_off;              /* 1: do not run the race detector (throughput for properties that do not own races) */
	int (*adversary) (void *arg, const int *enabled, int nenabled, int cur, int clock_enabled);
	void *adversary_arg;
} rt_config;

typedef struct rt_verdict_s {
	int kind;
	int tid;                 /* offending / reporting thread */
	char sig[160];           /* signature used by the known-findings file */
	char msg[400];           /* human readable */
	uint64_t addr;
} rt_verdict;

/* statistics of one execution */
typedef struct rt_stats_s {
	uint64_t steps;          /* scheduling points */
	uint64_t atomics;
	uint64_t plains;
	uint64_t switches;
	uint64_t sem_blocks;     /* times some thread actually blocked on a semaphore / futex */
	uint64_t sem_timeouts;   /* timed P that returned by the clock */
	uint64_t cas_fail;
	uint64_t yields;
	uint64_t clock_moves;
	uint64_t faults_injected;
	uint64_t hb_edges_used;  /* plain accesses ordered across threads only through an nsync atomic (see DESIGN 6.3) */
	uint64_t trace_hash;
	uint64_t frozen;         /* threads frozen by FREEZE */
	uint64_t allocs;
	uint64_t allocs_matching; /* allocations whose call site matches alloc_fail_file */
	uint64_t alloc_failed;
	int budget_exceeded;
} rt_stats;

/* One execution.  setup runs on the main context (thread 0): create objects,
   rt_spawn threads.  Then the scheduler runs until every thread finished or a
   verdict is raised.  at_quiescence is called (main context) whenever nothing
   can move and some thread is unfinished; it returns 1 if it made something
   runnable (thawed / spawned a janitor / opened a gate), 0 if the state is final
   (=> deadlock verdict unless it raised its own verdict with rt_fail).
   finish runs on the main context after all threads finished.  */
typedef struct rt_hooks_s {
	void (*setup) (void *arg);
	int (*at_quiescence) (void *arg, int livelock);
	void (*finish) (void *arg);
	void *arg;
	void (*on_free) (void *arg, void *block, size_t size);  /* may be NULL; called by the freeing thread while the block is still intact */
} rt_hooks;

void rt_execute (const rt_config *cfg, const rt_hooks *hooks, rt_verdict *v, rt_stats *st);

void rt_run_thread_destructors (void);           /* what pthread does with the per-thread waiter at thread exit; also run when the thread function returns */
int rt_spawn (void (*fn) (void *), void *arg);  /* returns tid (1..RT_MAXT-1) */
int rt_self (void);                              /* 0 on the main context */
void rt_op_boundary (int outside_cs);            /* scheduling point between two program operations */
void rt_point (void);                            /* plain scheduling point */
void rt_fail (int kind, const char *sig, const char *fmt, ...) __attribute__((format(printf, 3, 4)));
void rt_gate_wait (volatile int *gate);          /* harness-level blocking until *gate != 0; never a verdict */
void rt_thaw_all (void);
int rt_any_runnable (void);                      /* some thread (or the clock) can move */
int rt_thread_finished (int tid);
int rt_thread_blocked (int tid);                 /* 1: blocked on sem/futex, 2: frozen, 3: gate, 4: spinning (livelock), 0: no */
int rt_thread_sem_sleeps (int tid);              /* number of times tid blocked on its semaphore since rt_sem_sleeps_reset */
void rt_sem_sleeps_reset (int tid);
int rt_thread_touched_blocking (int tid);        /* reached a sem P / futex wait / yield since rt_touch_reset */
void rt_touch_reset (int tid);

/* API call bracketing: dead-stack tracking and attribution. */
void rt_call_begin (const char *api);
void rt_call_begin_sp (const char *api, uintptr_t sp); /* sp: stack pointer of the caller at the call site */
int rt_thread_in_fn (int tid, const char *fn);   /* is fn on tid's shadow call stack? */
int rt_self_in_fn (const char *fn);
void rt_call_end (void);
void rt_set_bytes (const uint8_t *p, size_t n);   /* BYTES strategy: schedule bytes (set by setup once the program is decoded) */
const char *rt_thread_api (int tid);

/* virtual clock */
#define RT_EPOCH_SEC 1000000
int64_t rt_now_ns (void);                        /* virtual now, ns since the unix epoch */
void rt_clock_register (int64_t ns);             /* an instant the clock may jump to */

/* explicit instrumentation of client data (the interpreter is not compiled with tsan) */
void rt_read (const void *p, size_t n);
void rt_write (void *p, size_t n);
/* thread start / join style edges for harness-level synchronisation */
void rt_hb_release (int slot);                   /* slot-th harness sync object := clock of current thread */
void rt_hb_acquire (int slot);
void rt_hb_join_all (void);                      /* main context: join the clocks of all finished threads */

/* counts observed by the runtime that oracles need */
uint64_t rt_stat_steps (void);
uint64_t rt_progress (void);                     /* increases on every state-changing event */
void rt_note_event (const char *tag);            /* free-form class counter, merged into the evidence histogram */

/* AnnotateRWLock* observations (second observation point for C01) */
typedef void (*rt_rwlock_cb) (void *mu, int is_write, int acquired, const char *file, int line);
void rt_set_rwlock_cb (rt_rwlock_cb cb);

/* memory lifetime */
int rt_is_freed (const void *p);

#if defined(__cplusplus)
}
#endif

#endif /*VERIF_SIMRT_C_H_*/
