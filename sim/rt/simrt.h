// C++-side extras of simrt used by the driver.
#ifndef VERIF_SIMRT_H_
#define VERIF_SIMRT_H_
#include <stdint.h>
#include <map>
#include <string>
#include <vector>
void *simrt_load_module (const char *path);
void *simrt_sym (const char *name);
const char *simrt_fn_name (uintptr_t pc);
uintptr_t simrt_module_base ();
void simrt_events_dump (std::map<std::string, uint64_t> *out);
const std::vector<uint8_t> &simrt_last_trace ();
#endif
