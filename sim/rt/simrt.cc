// simrt: deterministic simulation of the platform layer nsync is written against.
// See /verif/DESIGN.md section 3.  Not instrumented; provides the __tsan_* /
// Annotate* entry points that nsync (compiled with clang -fsanitize=thread) calls,
// so every atomic operation arrives here with the memory order its call site
// declared, and every plain access of nsync arrives with its address.
//
// Threads are fibers; exactly one runs.  Scheduler, virtual clock, semaphore /
// futex models, vector-clock race detector, arena / stack lifetime tracking.

#include "simrt_c.h"
#include "simrt.h"

#include <assert.h>
#include <dlfcn.h>
#include <elf.h>
#include <errno.h>
#include <fcntl.h>
#include <link.h>
#include <linux/futex.h>
#include <setjmp.h>
#include <signal.h>
#include <stdarg.h>
#include <stdio.h>
#include <stdlib.h>
#include <string.h>
#include <sys/mman.h>
#include <sys/stat.h>
#include <sys/syscall.h>
#include <unistd.h>

#include <algorithm>
#include <map>
#include <string>
#include <vector>

// ---------------------------------------------------------------- layout
static const uintptr_t kBase = 0x200000000000ull;
static const size_t kArenaSize = 1u << 20;       // 1 MiB bump arena
static const size_t kStackSize = 512u << 10;     // per fiber
static const size_t kGuard = 64u << 10;
static const uintptr_t kStackBase = kBase + kArenaSize + kGuard;
static inline uintptr_t stack_lo (int tid) { return kStackBase + (uintptr_t) tid * (kStackSize + kGuard); }
static inline uintptr_t stack_hi (int tid) { return stack_lo (tid) + kStackSize; }
static const uintptr_t kRegionEnd = kStackBase + (uintptr_t) RT_MAXT * (kStackSize + kGuard);

// ---------------------------------------------------------------- context switch
struct Ctx { void *rsp; };
extern "C" void simrt_ctx_switch (Ctx *from, Ctx *to);
asm (R"(
	.text
	.globl simrt_ctx_switch
	.type simrt_ctx_switch,@function
simrt_ctx_switch:
	pushq %rbp
	pushq %rbx
	pushq %r12
	pushq %r13
	pushq %r14
	pushq %r15
	movq %rsp, (%rdi)
	movq (%rsi), %rsp
	popq %r15
	popq %r14
	popq %r13
	popq %r12
	popq %rbx
	popq %rbp
	ret
	.size simrt_ctx_switch, .-simrt_ctx_switch
)");

// errno belongs to the simulated thread: keep it across switches (the saved copy lives on the
// switching fiber's own stack)
static inline void ctx_switch_keep_errno (Ctx *from, Ctx *to) {
	int e = errno;
	simrt_ctx_switch (from, to);
	errno = e;
}

// ---------------------------------------------------------------- fibers
enum FState { F_UNUSED = 0, F_RUNNABLE, F_BLOCKED, F_FROZEN, F_GATE, F_FINISHED };

static const int64_t kNoDeadline = INT64_MAX;

struct Fiber {
	int tid;
	FState state;
	Ctx ctx;
	void (*fn) (void *);
	void *arg;
	// blocking
	const void *wait_obj;       // semaphore / futex address
	int64_t deadline;           // ns, kNoDeadline if none
	bool woken;                 // set by V / FUTEX_WAKE
	bool timed_out;             // set by the clock
	volatile int *gate;
	// per-thread waiter of nsync
	void *waiter;
	void (*waiter_dest) (void *);
	uint8_t tls[64];            // this thread's image of the module's THREAD_LOCAL variables
	// flags
	bool after_atomic;
	int in_sem;
	bool yielded_last;          // for the fair fallback: a thread that just yielded goes last
	uint64_t last_progress;
	int spin_yields;
	int sem_sleeps;
	bool touched_blocking;
	// call bracketing
	const char *api;
	const char *api_stack[8];
	int api_depth;
	uintptr_t call_entry_sp;    // 0 when in no call
	// shadow call stack (callee pcs)
	uintptr_t cs[64];
	int csn;
	// PCT
	int prio;
	uint64_t last_run_step;
};

static Fiber g_fib[RT_MAXT];
static Fiber *g_cur;            // NULL on the main context
static Ctx g_main_ctx;
// The module's THREAD_LOCAL variables live in its section "sim_tls" (sim/platform/compiler.h).  Every fiber, and the
// main context, has its own image of that section; the live copy is exchanged at every context switch.
static const size_t kTlsMax = 64;
static uintptr_t g_tls_lo, g_tls_hi;
static uint8_t g_main_tls[kTlsMax];
static inline uint8_t *tls_image_of (Ctx *c) {
	if (c == &g_main_ctx) return g_main_tls;
	return ((Fiber *) ((char *) c - offsetof (Fiber, ctx)))->tls;
}
static inline void switch_ctx (Ctx *from, Ctx *to) {
	size_t n = g_tls_hi - g_tls_lo;
	if (n != 0) memcpy (tls_image_of (from), (void *) g_tls_lo, n);
	if (n != 0) memcpy ((void *) g_tls_lo, tls_image_of (to), n);
	ctx_switch_keep_errno (from, to);
}
static sigjmp_buf g_main_env;
static bool g_in_execute;

// ---------------------------------------------------------------- execution state
static rt_config g_cfg;
static const rt_hooks *g_hooks;
static rt_verdict g_verdict;
static rt_stats g_st;
static int64_t g_now;           // virtual ns
static std::vector<int64_t> g_instants;
static uint64_t g_progress;
static uint64_t g_gen = 1;      // shadow generation
static uint64_t g_rng;
static size_t g_bytepos;
static int g_rr_next;           // round robin pointer for the fair fallback
static size_t g_futex_wait_idx;
static int g_alloc_count_matching;
static bool g_quiescent_livelock;
static int g_main_yields;
static std::vector<uint8_t> g_trace;   // realized choices
static std::map<std::string, uint64_t> g_events;  // cumulative over the process
static rt_rwlock_cb g_rwlock_cb;
// PCT
static int g_pct_change[8];
static int g_pct_nchange;
static int g_pct_low;           // next low priority to hand out
static int g_clock_prio;

static inline uint64_t rng_next () {
	// splitmix64
	uint64_t z = (g_rng += 0x9e3779b97f4a7c15ull);
	z = (z ^ (z >> 30)) * 0xbf58476d1ce4e5b9ull;
	z = (z ^ (z >> 27)) * 0x94d049bb133111ebull;
	return z ^ (z >> 31);
}

// ---------------------------------------------------------------- module (the nsync+interp .so)
struct Sym { uintptr_t addr; size_t size; std::string name; };
static std::vector<Sym> g_syms;
struct Seg { uintptr_t addr; size_t size; std::vector<uint8_t> snap; };
static std::vector<Seg> g_segs;
static void *g_module;
static uintptr_t g_mod_lo, g_mod_hi;
static uintptr_t g_cov_lo, g_cov_hi;   // libFuzzer's inline coverage counters inside the module (fuzz builds)

static std::string short_name (const std::string &n);
static int phdr_cb (struct dl_phdr_info *info, size_t, void *data) {
	const char *want = (const char *) data;
	if (info->dlpi_name == NULL || strstr (info->dlpi_name, want) == NULL) return 0;
	g_mod_lo = UINTPTR_MAX; g_mod_hi = 0;
	for (int i = 0; i < info->dlpi_phnum; i++) {
		const ElfW(Phdr) *ph = &info->dlpi_phdr[i];
		if (ph->p_type != PT_LOAD) continue;
		uintptr_t a = info->dlpi_addr + ph->p_vaddr;
		g_mod_lo = std::min (g_mod_lo, a);
		g_mod_hi = std::max (g_mod_hi, a + ph->p_memsz);
		if (ph->p_flags & PF_W) {
			Seg s; s.addr = a; s.size = ph->p_memsz;
			g_segs.push_back (s);
		}
	}
	// symbol table from the file
	int fd = open (info->dlpi_name, O_RDONLY);
	if (fd < 0) return 1;
	struct stat sb; fstat (fd, &sb);
	uint8_t *m = (uint8_t *) mmap (NULL, sb.st_size, PROT_READ, MAP_PRIVATE, fd, 0);
	close (fd);
	if (m == MAP_FAILED) return 1;
	ElfW(Ehdr) *eh = (ElfW(Ehdr) *) m;
	ElfW(Shdr) *sh = (ElfW(Shdr) *) (m + eh->e_shoff);
	const char *shstr = (const char *) (m + sh[eh->e_shstrndx].sh_offset);
	for (int i = 0; i < eh->e_shnum; i++) {
		if (strcmp (shstr + sh[i].sh_name, "__sancov_cntrs") == 0 || strcmp (shstr + sh[i].sh_name, "__sancov_bools") == 0) {
			g_cov_lo = info->dlpi_addr + sh[i].sh_addr; g_cov_hi = g_cov_lo + sh[i].sh_size;
		}
		if (strcmp (shstr + sh[i].sh_name, "sim_tls") == 0) {
			g_tls_lo = info->dlpi_addr + sh[i].sh_addr; g_tls_hi = g_tls_lo + sh[i].sh_size;
			if (g_tls_hi - g_tls_lo > kTlsMax) { fprintf (stderr, "simrt: sim_tls section larger than %zu bytes\n", (size_t) kTlsMax); abort (); }
		}
	}
	for (int i = 0; i < eh->e_shnum; i++) {
		if (sh[i].sh_type != SHT_SYMTAB) continue;
		ElfW(Sym) *st = (ElfW(Sym) *) (m + sh[i].sh_offset);
		size_t n = sh[i].sh_size / sizeof (ElfW(Sym));
		const char *str = (const char *) (m + sh[sh[i].sh_link].sh_offset);
		for (size_t k = 0; k < n; k++) {
			if (ELF64_ST_TYPE (st[k].st_info) != STT_FUNC || st[k].st_size == 0) continue;
			Sym s; s.addr = info->dlpi_addr + st[k].st_value; s.size = st[k].st_size; s.name = short_name (str + st[k].st_name);
			g_syms.push_back (s);
		}
	}
	munmap (m, sb.st_size);
	std::sort (g_syms.begin (), g_syms.end (), [] (const Sym &a, const Sym &b) { return a.addr < b.addr; });
	return 1;
}

void *simrt_load_module (const char *path) {
	g_module = dlopen (path, RTLD_NOW | RTLD_GLOBAL);
	if (g_module == NULL) {
		fprintf (stderr, "simrt: dlopen %s: %s\n", path, dlerror ());
		exit (2);
	}
	const char *base = strrchr (path, '/');
	base = base ? base + 1 : path;
	dl_iterate_phdr (phdr_cb, (void *) base);
	if (g_segs.empty ()) {
		fprintf (stderr, "simrt: no writable segment found for %s\n", path);
		exit (2);
	}
	for (auto &s : g_segs) {
		s.snap.assign ((uint8_t *) s.addr, (uint8_t *) s.addr + s.size);
	}
	return g_module;
}

void *simrt_sym (const char *name) {
	void *p = dlsym (g_module, name);
	if (p == NULL) { fprintf (stderr, "simrt: missing symbol %s\n", name); exit (2); }
	return p;
}

// "_ZN5nsync16nsync_dll_first_EPNS_..." -> "nsync_dll_first_" so that signatures do not depend on the flavour
static std::string short_name (const std::string &n) {
	const char *pfx = "_ZN5nsync";
	if (n.compare (0, 9, pfx) == 0) {
		size_t i = 9; size_t len = 0;
		while (i < n.size () && n[i] >= '0' && n[i] <= '9') { len = len * 10 + (size_t) (n[i] - '0'); i++; }
		if (len > 0 && i + len <= n.size ()) return n.substr (i, len);
	}
	if (n.compare (0, 5, "_ZL") == 0 || n.compare (0, 3, "_ZL") == 0) {
		size_t i = 3; size_t len = 0;
		while (i < n.size () && n[i] >= '0' && n[i] <= '9') { len = len * 10 + (size_t) (n[i] - '0'); i++; }
		if (len > 0 && i + len <= n.size ()) return n.substr (i, len);
	}
	if (n.compare (0, 2, "_Z") == 0) {
		size_t i = 2; size_t len = 0;
		while (i < n.size () && n[i] >= '0' && n[i] <= '9') { len = len * 10 + (size_t) (n[i] - '0'); i++; }
		if (len > 0 && i + len <= n.size ()) return n.substr (i, len);
	}
	return n;
}
const char *simrt_fn_name (uintptr_t pc) {
	if (pc < g_mod_lo || pc >= g_mod_hi || g_syms.empty ()) return "?";
	size_t lo = 0, hi = g_syms.size ();
	while (lo + 1 < hi) {
		size_t mid = (lo + hi) / 2;
		if (g_syms[mid].addr <= pc) lo = mid; else hi = mid;
	}
	if (g_syms[lo].addr <= pc && pc < g_syms[lo].addr + g_syms[lo].size) return g_syms[lo].name.c_str ();
	return "?";
}

uintptr_t simrt_module_base () { return g_mod_lo; }

// ---------------------------------------------------------------- memory region
static bool g_region_ready;
static void region_init () {
	if (g_region_ready) return;
	void *p = mmap ((void *) kBase, kRegionEnd - kBase, PROT_READ | PROT_WRITE,
			MAP_PRIVATE | MAP_ANONYMOUS | MAP_FIXED_NOREPLACE | MAP_NORESERVE, -1, 0);
	if (p != (void *) kBase) { perror ("simrt: mmap region"); exit (2); }
	// guard below each stack
	mprotect ((void *) (kBase + kArenaSize), kGuard, PROT_NONE);
	for (int t = 0; t < RT_MAXT; t++) mprotect ((void *) stack_hi (t), kGuard, PROT_NONE);
	g_region_ready = true;
}

// arena blocks
struct Block { uint32_t off, size; bool freed; const char *file; int line; int free_tid; uintptr_t free_pc; };
static std::vector<Block> g_blocks;
static uint16_t *g_blkidx;      // per 16-byte granule -> block index+1
static size_t g_arena_top;

static inline bool in_arena (uintptr_t a) { return a >= kBase && a < kBase + kArenaSize; }
static inline int stack_owner (uintptr_t a) {
	if (a < kStackBase || a >= kRegionEnd) return -1;
	uintptr_t d = a - kStackBase;
	int t = (int) (d / (kStackSize + kGuard));
	if (d - (uintptr_t) t * (kStackSize + kGuard) >= kStackSize) return -1;
	return t;
}

// ---------------------------------------------------------------- verdicts
static void verdict_set (int kind, int tid, uint64_t addr, const char *sig, const char *fmt, va_list ap) {
	if (g_verdict.kind != RT_V_NONE) return;
	g_verdict.kind = kind;
	g_verdict.tid = tid;
	g_verdict.addr = addr;
	snprintf (g_verdict.sig, sizeof (g_verdict.sig), "%s", sig);
	vsnprintf (g_verdict.msg, sizeof (g_verdict.msg), fmt, ap);
}

static void leave_to_main () __attribute__((noreturn));
static void leave_to_main () {
	if (g_cur != NULL) {
		Fiber *f = g_cur;
		g_cur = NULL;
		switch_ctx (&f->ctx, &g_main_ctx);
		// never resumed
		abort ();
	}
	siglongjmp (g_main_env, 1);
}

static void raise_verdict (int kind, uint64_t addr, const char *sig, const char *fmt, ...) __attribute__((noreturn, format(printf, 4, 5)));
static void raise_verdict (int kind, uint64_t addr, const char *sig, const char *fmt, ...) {
	va_list ap; va_start (ap, fmt);
	verdict_set (kind, g_cur ? g_cur->tid : 0, addr, sig, fmt, ap);
	va_end (ap);
	leave_to_main ();
}

extern "C" void rt_fail (int kind, const char *sig, const char *fmt, ...) {
	va_list ap; va_start (ap, fmt);
	verdict_set (kind, g_cur ? g_cur->tid : 0, 0, sig, fmt, ap);
	va_end (ap);
	if (!g_in_execute) return;
	leave_to_main ();
}

static const char *api_of (Fiber *f) { return (f && f->api) ? f->api : "-"; }

// ---------------------------------------------------------------- happens-before engine
typedef uint32_t Clk;
static Clk g_vc[RT_MAXT][RT_MAXT];
static Clk g_hsync[16][RT_MAXT];       // harness-level sync objects

struct Cell {
	uint64_t gen;
	uintptr_t key;
	Clk wclk; int8_t wtid; bool watomic; uintptr_t wpc;
	Clk rclk[RT_MAXT]; uint16_t ratomic; uintptr_t rpc[RT_MAXT];
};
struct SyncCell { uint64_t gen; uintptr_t key; Clk vc[RT_MAXT]; };
static const size_t kCells = 1u << 16;
static const size_t kSyncCells = 1u << 12;
static Cell *g_cells;
static SyncCell *g_sync;
static size_t g_cells_used, g_sync_used;

static inline int curtid () { return g_cur ? g_cur->tid : 0; }

static Cell *cell_get (uintptr_t key) {
	size_t h = (size_t) ((key * 0x9e3779b97f4a7c15ull) >> 40) & (kCells - 1);
	for (size_t i = 0; i < kCells; i++) {
		Cell *c = &g_cells[(h + i) & (kCells - 1)];
		if (c->gen != g_gen) {
			if (g_cells_used > kCells * 3 / 4) return NULL;
			memset (c, 0, sizeof (*c));
			c->gen = g_gen; c->key = key; c->wtid = -1;
			g_cells_used++;
			return c;
		}
		if (c->key == key) return c;
	}
	return NULL;
}
static SyncCell *sync_get (uintptr_t key) {
	size_t h = (size_t) ((key * 0x9e3779b97f4a7c15ull) >> 40) & (kSyncCells - 1);
	for (size_t i = 0; i < kSyncCells; i++) {
		SyncCell *c = &g_sync[(h + i) & (kSyncCells - 1)];
		if (c->gen != g_gen) {
			if (g_sync_used > kSyncCells * 3 / 4) return NULL;
			memset (c, 0, sizeof (*c));
			c->gen = g_gen; c->key = key;
			g_sync_used++;
			return c;
		}
		if (c->key == key) return c;
	}
	return NULL;
}

static void report_race (uintptr_t addr, uintptr_t pc, bool is_write, int otid, uintptr_t opc, bool o_write) __attribute__((noreturn));
static void report_race (uintptr_t addr, uintptr_t pc, bool is_write, int otid, uintptr_t opc, bool o_write) {
	const char *a = simrt_fn_name (pc), *b = simrt_fn_name (opc);
	char sig[160];
	// order the pair so that the signature does not depend on which side ran second
	if (strcmp (a, b) <= 0) snprintf (sig, sizeof (sig), "race:%s|%s", a, b);
	else snprintf (sig, sizeof (sig), "race:%s|%s", b, a);
	raise_verdict (RT_V_RACE, addr, sig,
		       "data race on %#lx: %s by T%d in %s (api %s, pc +%#lx) vs earlier %s by T%d in %s (pc +%#lx), not ordered by happens-before",
		       (unsigned long) addr, is_write ? "write" : "read", curtid (), a, api_of (g_cur),
		       (unsigned long) (pc - g_mod_lo), o_write ? "write" : "read", otid, b, (unsigned long) (opc - g_mod_lo));
}

static inline void hb_access (uintptr_t addr, bool is_write, bool is_atomic, uintptr_t pc) {
	if (g_cfg.hb_off) return;
	if (g_cur && g_cur->in_sem) return;   // nothing inside the sleeping primitive is credited or judged
	int t = curtid ();
	Cell *c = cell_get (addr >> 2);
	if (c == NULL) { g_st.budget_exceeded = 1; return; }
	Clk *vc = g_vc[t];
	if (c->wtid >= 0 && c->wtid != t) {
		if (c->wclk > vc[c->wtid]) {
			if (!(is_atomic && c->watomic)) report_race (addr, pc, is_write, c->wtid, c->wpc, true);
		} else if (!is_atomic && c->wtid != 0) {
			g_st.hb_edges_used++;
		}
	}
	if (is_write) {
		for (int u = 0; u < RT_MAXT; u++) {
			if (u == t || c->rclk[u] == 0) continue;
			if (c->rclk[u] > vc[u]) {
				bool ra = (c->ratomic >> u) & 1;
				if (!(is_atomic && ra)) report_race (addr, pc, true, u, c->rpc[u], false);
			}
		}
		c->wtid = (int8_t) t; c->wclk = vc[t]; c->watomic = is_atomic; c->wpc = pc;
		memset (c->rclk, 0, sizeof (c->rclk)); c->ratomic = 0;
	} else {
		// keep the weaker (plain) classification if a plain read was recorded at the same clock
		if (c->rclk[t] == vc[t] && !((c->ratomic >> t) & 1)) {
			// already a plain read at this epoch
		} else {
			c->rclk[t] = vc[t]; c->rpc[t] = pc;
			if (is_atomic) c->ratomic |= (uint16_t) (1u << t); else c->ratomic &= (uint16_t) ~(1u << t);
		}
	}
}

static inline bool mo_acq (int mo) { return mo == __ATOMIC_ACQUIRE || mo == __ATOMIC_ACQ_REL || mo == __ATOMIC_SEQ_CST || mo == __ATOMIC_CONSUME; }
static inline bool mo_rel (int mo) { return mo == __ATOMIC_RELEASE || mo == __ATOMIC_ACQ_REL || mo == __ATOMIC_SEQ_CST; }

static inline void hb_atomic_load (uintptr_t addr, int mo) {
	if (g_cfg.hb_off || (g_cur && g_cur->in_sem)) return;
	if (!mo_acq (mo)) return;
	SyncCell *s = sync_get (addr);
	if (s == NULL) { g_st.budget_exceeded = 1; return; }
	Clk *vc = g_vc[curtid ()];
	for (int u = 0; u < RT_MAXT; u++) if (s->vc[u] > vc[u]) vc[u] = s->vc[u];
}
static inline void hb_atomic_store (uintptr_t addr, int mo) {
	if (g_cfg.hb_off || (g_cur && g_cur->in_sem)) return;
	SyncCell *s = sync_get (addr);
	if (s == NULL) { g_st.budget_exceeded = 1; return; }
	int t = curtid ();
	if (mo_rel (mo)) {
		memcpy (s->vc, g_vc[t], sizeof (s->vc));
		g_vc[t][t]++;
	} else {
		memset (s->vc, 0, sizeof (s->vc));   // a relaxed store breaks the release sequence
	}
}
static inline void hb_atomic_rmw (uintptr_t addr, int mo) {
	if (g_cfg.hb_off || (g_cur && g_cur->in_sem)) return;
	SyncCell *s = sync_get (addr);
	if (s == NULL) { g_st.budget_exceeded = 1; return; }
	int t = curtid ();
	Clk *vc = g_vc[t];
	if (mo_acq (mo)) for (int u = 0; u < RT_MAXT; u++) if (s->vc[u] > vc[u]) vc[u] = s->vc[u];
	if (mo_rel (mo)) {
		for (int u = 0; u < RT_MAXT; u++) if (vc[u] > s->vc[u]) s->vc[u] = vc[u];
		g_vc[t][t]++;
	}
	// relaxed / acquire-only RMW: L.sync unchanged (continues the release sequence)
}

extern "C" void rt_hb_release (int slot) {
	int t = curtid ();
	for (int u = 0; u < RT_MAXT; u++) if (g_vc[t][u] > g_hsync[slot][u]) g_hsync[slot][u] = g_vc[t][u];
	g_vc[t][t]++;
}
extern "C" void rt_hb_acquire (int slot) {
	int t = curtid ();
	for (int u = 0; u < RT_MAXT; u++) if (g_hsync[slot][u] > g_vc[t][u]) g_vc[t][u] = g_hsync[slot][u];
}
extern "C" void rt_hb_join_all (void) {
	int t = curtid ();
	for (int f = 0; f < RT_MAXT; f++) {
		if (f == t) continue;
		if (f != 0 && g_fib[f].state != F_FINISHED) continue;
		for (int u = 0; u < RT_MAXT; u++) if (g_vc[f][u] > g_vc[t][u]) g_vc[t][u] = g_vc[f][u];
	}
}

// ---------------------------------------------------------------- lifetime checks
static inline void life_check (uintptr_t addr, uintptr_t pc, bool is_write) {
	if (g_cfg.life_off) return;
	if (in_arena (addr)) {
		uint16_t bi = g_blkidx[(addr - kBase) >> 4];
		if (bi != 0) {
			Block &b = g_blocks[bi - 1];
			if (b.freed) {
				char sig[160];
				snprintf (sig, sizeof (sig), "freed:%s", simrt_fn_name (pc));
				raise_verdict (RT_V_FREED, addr, sig,
					       "%s of freed memory %#lx (block of %u bytes from %s:%d, freed by T%d in %s) by T%d in %s (api %s, pc +%#lx)",
					       is_write ? "write" : "read", (unsigned long) addr, b.size, b.file ? b.file : "?", b.line,
					       b.free_tid, simrt_fn_name (b.free_pc), curtid (), simrt_fn_name (pc), api_of (g_cur),
					       (unsigned long) (pc - g_mod_lo));
			}
		}
		return;
	}
	int owner = stack_owner (addr);
	if (owner >= 0 && owner != curtid ()) {
		Fiber *b = &g_fib[owner];
		bool ok = b->state != F_UNUSED && b->state != F_FINISHED && b->call_entry_sp != 0 &&
			  addr >= (uintptr_t) b->ctx.rsp && addr < b->call_entry_sp;
		if (!ok) {
			char sig[160];
			snprintf (sig, sizeof (sig), "deadstack:%s", simrt_fn_name (pc));
			raise_verdict (RT_V_DEADSTACK, addr, sig,
				       "%s of dead stack memory %#lx of T%d (its current call: %s, live frames [%#lx,%#lx)) by T%d in %s (api %s, pc +%#lx)",
				       is_write ? "write" : "read", (unsigned long) addr, owner, api_of (b),
				       (unsigned long) (uintptr_t) b->ctx.rsp, (unsigned long) b->call_entry_sp,
				       curtid (), simrt_fn_name (pc), api_of (g_cur), (unsigned long) (pc - g_mod_lo));
		}
	}
}

// ---------------------------------------------------------------- scheduler
static inline bool clock_enabled () {
	for (int t = 1; t < RT_MAXT; t++) {
		Fiber *f = &g_fib[t];
		if (f->state == F_BLOCKED && f->deadline != kNoDeadline && f->deadline > g_now) return true;
	}
	for (int64_t x : g_instants) if (x > g_now) return true;
	return false;
}

static inline bool fiber_enabled (Fiber *f) {
	switch (f->state) {
	case F_RUNNABLE: return true;
	case F_GATE: return *f->gate != 0;
	case F_BLOCKED: return f->woken || f->timed_out || (f->deadline != kNoDeadline && f->deadline <= g_now);
	default: return false;
	}
}

static void clock_move () {
	int64_t next = INT64_MAX;
	for (int t = 1; t < RT_MAXT; t++) {
		Fiber *f = &g_fib[t];
		if (f->state == F_BLOCKED && f->deadline != kNoDeadline && f->deadline > g_now) next = std::min (next, f->deadline);
	}
	for (int64_t x : g_instants) if (x > g_now) next = std::min (next, x);
	if (next == INT64_MAX) return;
	g_now = next;
	g_st.clock_moves++;
	g_progress++;
	g_trace.push_back (RT_CLOCK_ID);
}

static int collect_enabled (int *out) {
	int n = 0;
	for (int t = 1; t < RT_MAXT; t++) if (fiber_enabled (&g_fib[t])) out[n++] = t;
	return n;
}

// Decide who moves next.  cur_ok: the running thread may keep running (false at
// a yield when someone else can run, or when it blocked / finished).
// Returns a tid, RT_CLOCK_ID, or -1 if nothing can move.
static int choose (bool cur_ok) {
	int en[RT_MAXT]; int n = collect_enabled (en);
	bool ck = clock_enabled ();
	int cur = g_cur ? g_cur->tid : -1;
	bool cur_en = false;
	for (int i = 0; i < n; i++) if (en[i] == cur) cur_en = true;
	if (!cur_en) cur_ok = false;
	if (n == 0) return ck ? RT_CLOCK_ID : -1;
	// candidates other than cur
	int oth[RT_MAXT]; int no = 0;
	for (int i = 0; i < n; i++) if (en[i] != cur) oth[no++] = en[i];
	// a thread that yields while nobody else can run is waiting for time to pass
	if (!cur_ok && no == 0 && ck) return RT_CLOCK_ID;

	switch (g_cfg.strategy) {
	case RT_S_REPLAY:
		if (g_bytepos < g_cfg.nbytes) {
			int c = g_cfg.bytes[g_bytepos++];
			if (c == RT_CLOCK_ID) { if (ck) return RT_CLOCK_ID; }
			else { for (int i = 0; i < n; i++) if (en[i] == c) return c; }
			raise_verdict (RT_V_REPLAYDIV, 0, "replaydiv", "replay diverged at choice %zu (wanted %d)", g_bytepos - 1, c);
		}
		break;   // fall to fair
	case RT_S_BYTES:
		if (g_bytepos < g_cfg.nbytes) {
			int b = g_cfg.bytes[g_bytepos++];
			if (b == 0 && cur_ok) return cur;
			if (b == 0xff && ck) return RT_CLOCK_ID;
			if (no > 0) return oth[(b == 0 ? 0 : b - 1) % no];
			if (cur_en) return cur;
		}
		break;
	case RT_S_RANDOM: {
		if (ck && g_cfg.clock_weight > 0 && (rng_next () % (uint64_t) g_cfg.clock_weight) == 0) return RT_CLOCK_ID;
		if (cur_ok) {
			if (no == 0) return cur;
			uint64_t r = rng_next ();
			if ((r & ((1ull << g_cfg.switch_shift) - 1)) != 0) return cur;
			return oth[(r >> 32) % (uint64_t) no];
		}
		if (no > 0) return oth[rng_next () % (uint64_t) no];
		return cur_en ? cur : (ck ? RT_CLOCK_ID : -1);
	}
	case RT_S_PCT: {
		// priority change points
		for (int i = 0; i < g_pct_nchange; i++) {
			if ((int) g_st.steps == g_pct_change[i] && g_cur) g_cur->prio = g_pct_low--;
		}
		int best = -1, bp = INT32_MIN;
		for (int i = 0; i < n; i++) {
			if (en[i] == cur && !cur_ok) continue;
			if (g_fib[en[i]].prio > bp) { bp = g_fib[en[i]].prio; best = en[i]; }
		}
		if (ck && (best < 0 || g_clock_prio > bp)) { g_clock_prio = g_pct_low--; return RT_CLOCK_ID; }
		if (best >= 0) return best;
		return cur_en ? cur : -1;
	}
	case RT_S_ADVERSARY:
		if (g_cfg.adversary) {
			int c = g_cfg.adversary (g_cfg.adversary_arg, en, n, cur_ok ? cur : -1, ck);
			if (c == RT_CLOCK_ID && ck) return c;
			for (int i = 0; i < n; i++) if (en[i] == c && (c != cur || cur_ok)) return c;
		}
		break;
	}
	// fair fallback: round robin over enabled threads; a thread that just yielded goes last
	if (cur_ok && !(g_cur && g_cur->yielded_last)) {
		// keep running for a while, but rotate regularly so that nobody starves
		if ((g_st.steps & 15) != 0 || no == 0) return cur;
	}
	if (no > 0) {
		for (int k = 1; k <= RT_MAXT; k++) {
			int t = (g_rr_next + k) % RT_MAXT;
			for (int i = 0; i < no; i++) if (oth[i] == t) { g_rr_next = t; return t; }
		}
	}
	if (cur_en) return cur;
	return ck ? RT_CLOCK_ID : -1;
}

static void fiber_trampoline ();

static void switch_to (Fiber *next) {
	Fiber *prev = g_cur;
	if (next == prev) return;
	g_st.switches++;
	g_cur = next;
	if (next->state == F_GATE) next->state = F_RUNNABLE;
	switch_ctx (prev ? &prev->ctx : &g_main_ctx, &next->ctx);
}

// Called from a fiber that cannot continue (blocked/finished/frozen) or at a point.
// Returns when this fiber is scheduled again (or immediately if it is chosen).
static void reschedule (bool cur_ok) {
	for (;;) {
		if ((int64_t) g_st.steps >= g_cfg.step_budget) {
			g_st.budget_exceeded = 1;
			{
				char who[300]; size_t wl = 0; who[0] = 0;
				for (int t = 1; t < RT_MAXT; t++) {
					Fiber *f = &g_fib[t];
					if (f->state == F_UNUSED || f->state == F_FINISHED) continue;
					wl += (size_t) snprintf (who + wl, sizeof (who) - wl, " T%d:state=%d,dl=%ld,api=%s", t, (int) f->state, (long) (f->deadline == kNoDeadline ? -1 : f->deadline - g_now), api_of (f));
					if (wl >= sizeof (who)) break;
				}
				raise_verdict (RT_V_BUDGET, 0, "budget", "step budget exceeded; now=%ld clock_enabled=%d:%s", (long) g_now, (int) clock_enabled (), who);
			}
		}
		int c = choose (cur_ok);
		if (c == RT_CLOCK_ID) { clock_move (); continue; }
		if (c < 0) {
			// nothing can move: quiescence, handled on the main context
			Fiber *f = g_cur;
			g_cur = NULL;
			if (f) switch_ctx (&f->ctx, &g_main_ctx);
			else return;   // already on main
			// resumed later (if this fiber became enabled again)
			return;
		}
		g_trace.push_back ((uint8_t) c);
		g_fib[c].last_run_step = g_st.steps;
		if (g_cur && c == g_cur->tid) return;
		if (g_cur == NULL) { switch_to (&g_fib[c]); return; }
		switch_to (&g_fib[c]);
		return;
	}
}

static inline void sched_point () {
	if (g_cur == NULL) return;
	g_st.steps++;
	g_cur->yielded_last = false;
	reschedule (true);
}

extern "C" void rt_point (void) { sched_point (); }

static void block_current (const void *obj, int64_t deadline) {
	Fiber *f = g_cur;
	f->state = F_BLOCKED; f->wait_obj = obj; f->deadline = deadline; f->woken = false; f->timed_out = false;
	g_st.sem_blocks++;
	f->sem_sleeps++;
	g_st.steps++;
	reschedule (false);
	// resumed
	if (!f->woken && f->deadline != kNoDeadline && f->deadline <= g_now) f->timed_out = true;
	f->state = F_RUNNABLE; f->wait_obj = NULL;
}

static int wake_waiters_on (const void *obj, int max) {
	int n = 0;
	for (int t = 1; t < RT_MAXT && n < max; t++) {
		Fiber *f = &g_fib[t];
		if (f->state == F_BLOCKED && f->wait_obj == obj && !f->woken) { f->woken = true; n++; }
	}
	return n;
}

extern "C" void rt_yield (void) {
	Fiber *f = g_cur;
	if (f == NULL) {
		// the main context (setup / quiescence handler / finish) runs while every thread is stopped: a spin
		// loop that has backed off to yielding can never be satisfied
		if (g_in_execute && ++g_main_yields > 64) raise_verdict (RT_V_DEADLOCK, 0, "main-blocked", "main context spins on a lock bit that nobody can clear");
		return;
	}
	g_st.yields++;
	g_st.steps++;
	f->touched_blocking = true;
	if (f->last_progress == g_progress) f->spin_yields++;
	else { f->spin_yields = 1; f->last_progress = g_progress; }
	// livelock: every enabled thread has yielded >= 8 times with no progress at all, and the clock cannot move
	if (f->spin_yields >= 8) {
		bool all = true;
		int en[RT_MAXT]; int n = collect_enabled (en);
		for (int i = 0; i < n; i++) {
			Fiber *o = &g_fib[en[i]];
			if (!(o->spin_yields >= 8 && o->last_progress == g_progress)) { all = false; break; }
		}
		if (all && clock_enabled ()) {
			// everybody who can run is spinning: only the passage of time can change anything
			clock_move ();
			all = false;
		}
		if (all) {
			g_quiescent_livelock = true;
			g_cur = NULL;
			switch_ctx (&f->ctx, &g_main_ctx);
			// resumed after the quiescence handler changed something
			f->spin_yields = 0;
			return;
		}
	}
	if (g_cfg.strategy == RT_S_PCT) f->prio = g_pct_low--;
	f->yielded_last = true;
	reschedule (false);
}

extern "C" void rt_op_boundary (int outside_cs) {
	Fiber *f = g_cur;
	if (f == NULL) return;
	g_progress++;
	if (outside_cs && g_cfg.freeze_at >= 0 && (int64_t) g_st.steps >= g_cfg.freeze_at) {
		f->state = F_FROZEN;
		g_st.frozen++;
		g_st.steps++;
		reschedule (false);
		f->state = F_RUNNABLE;
		return;
	}
	sched_point ();
}

extern "C" void rt_gate_wait (volatile int *gate) {
	Fiber *f = g_cur;
	if (f == NULL) return;
	while (*gate == 0) {
		f->state = F_GATE; f->gate = gate;
		g_st.steps++;
		reschedule (false);
		f->state = F_RUNNABLE;
	}
}

extern "C" void rt_thaw_all (void) {
	for (int t = 1; t < RT_MAXT; t++) if (g_fib[t].state == F_FROZEN) g_fib[t].state = F_RUNNABLE;
	g_cfg.freeze_at = -1;
}

extern "C" int rt_any_runnable (void) { int en[RT_MAXT]; return collect_enabled (en) > 0 || clock_enabled (); }
extern "C" int rt_thread_finished (int tid) { return g_fib[tid].state == F_FINISHED || g_fib[tid].state == F_UNUSED; }
extern "C" int rt_thread_blocked (int tid) {
	Fiber *f = &g_fib[tid];
	if (f->state == F_BLOCKED) return 1;
	if (f->state == F_FROZEN) return 2;
	if (f->state == F_GATE) return 3;
	if (f->state == F_RUNNABLE && g_quiescent_livelock) return 4;
	return 0;
}
extern "C" int rt_thread_sem_sleeps (int tid) { return g_fib[tid].sem_sleeps; }
extern "C" void rt_sem_sleeps_reset (int tid) { g_fib[tid].sem_sleeps = 0; }
extern "C" int rt_thread_touched_blocking (int tid) { return g_fib[tid].touched_blocking; }
extern "C" void rt_touch_reset (int tid) { g_fib[tid].touched_blocking = false; }
extern "C" const char *rt_thread_api (int tid) { return api_of (&g_fib[tid]); }
extern "C" int rt_self (void) { return curtid (); }
extern "C" uint64_t rt_stat_steps (void) { return g_st.steps; }
extern "C" uint64_t rt_progress (void) { return g_progress; }
extern "C" void rt_note_event (const char *tag) { g_events[tag]++; }
extern "C" void rt_set_rwlock_cb (rt_rwlock_cb cb) { g_rwlock_cb = cb; }

void simrt_events_dump (std::map<std::string, uint64_t> *out) { *out = g_events; }
const std::vector<uint8_t> &simrt_last_trace () { return g_trace; }

extern "C" void rt_call_begin_sp (const char *api, uintptr_t sp) {
	Fiber *f = g_cur;
	if (f == NULL) return;
	// nested brackets (a callback from inside an nsync call): keep the outermost entry sp
	if (f->api_depth < 8) f->api_stack[f->api_depth] = f->api;
	f->api_depth++;
	f->api = api;
	if (f->api_depth == 1) f->call_entry_sp = sp;
}
extern "C" void rt_call_begin (const char *api) {
	rt_call_begin_sp (api, (uintptr_t) __builtin_frame_address (0));
}
extern "C" int rt_thread_in_fn (int tid, const char *fn) {
	Fiber *f = &g_fib[tid];
	for (int i = 0; i < f->csn && i < 64; i++) if (strcmp (simrt_fn_name (f->cs[i]), fn) == 0) return 1;
	return 0;
}
extern "C" int rt_self_in_fn (const char *fn) { return g_cur ? rt_thread_in_fn (g_cur->tid, fn) : 0; }
extern "C" void rt_call_end (void) {
	Fiber *f = g_cur;
	if (f == NULL) return;
	if (f->api_depth > 0) f->api_depth--;
	f->api = (f->api_depth < 8) ? f->api_stack[f->api_depth] : NULL;
	if (f->api_depth == 0) { f->api = NULL; f->call_entry_sp = 0; }
}
extern "C" void rt_set_bytes (const uint8_t *p, size_t n) { g_cfg.bytes = p; g_cfg.nbytes = n; g_bytepos = 0; }

// What pthread does with a thread-specific value at thread exit: clear the slot, call the destructor with the old
// value, and repeat (PTHREAD_DESTRUCTOR_ITERATIONS = 4) while a destructor stored a new value.  A program may call
// this before its thread function returns to model application destructors that still use nsync AFTER nsync's own
// destructor has run (POSIX leaves the order of destructors unspecified).
extern "C" void rt_run_thread_destructors (void) {
	Fiber *f = g_cur;
	if (f == NULL) return;
	for (int it = 0; it < 4 && f->waiter != NULL && f->waiter_dest != NULL; it++) {
		void *w = f->waiter; f->waiter = NULL;
		const char *api = f->api;
		f->api = "thread_exit";
		f->waiter_dest (w);
		f->api = api;
	}
}

static void fiber_main () {
	Fiber *f = g_cur;
	f->fn (f->arg);
	// thread exit: run the per-thread waiter destructor, as pthread key destructors would
	rt_run_thread_destructors ();
	f->state = F_FINISHED;
	g_progress++;
	g_vc[f->tid][f->tid]++;
	g_st.steps++;
	reschedule (false);
	// a finished fiber is never resumed; if nothing else can move we get here only via main
	g_cur = NULL;
	switch_ctx (&f->ctx, &g_main_ctx);
	abort ();
}
static void fiber_trampoline () { fiber_main (); abort (); }

extern "C" int rt_spawn (void (*fn) (void *), void *arg) {
	int t;
	bool reuse = false;
	for (t = 1; t < RT_MAXT; t++) if (g_fib[t].state == F_UNUSED) break;
	if (t == RT_MAXT) {
		// no fresh slot: continue in the slot of the most recently created thread that has finished (a later
		// janitor takes over the slot of an earlier one; for happens-before it is the same thread doing more work)
		for (t = RT_MAXT - 1; t >= 1; t--) if (g_fib[t].state == F_FINISHED) break;
		if (t < 1) { g_st.budget_exceeded = 1; raise_verdict (RT_V_BUDGET, 0, "budget", "thread slots exhausted"); }
		reuse = true;
	}
	Fiber *f = &g_fib[t];
	Clk saved_vc[RT_MAXT];
	memcpy (saved_vc, g_vc[t], sizeof (saved_vc));
	memset (f, 0, sizeof (*f));
	f->tid = t; f->state = F_RUNNABLE; f->fn = fn; f->arg = arg; f->deadline = kNoDeadline;
	uintptr_t top = stack_hi (t) - 64;
	top &= ~(uintptr_t) 15;
	uintptr_t *sp = (uintptr_t *) top;
	*--sp = 0;                                   // fake return address of the trampoline
	*--sp = (uintptr_t) &fiber_trampoline;       // popped by ret
	for (int i = 0; i < 6; i++) *--sp = 0;       // rbp rbx r12 r13 r14 r15
	f->ctx.rsp = sp;
	// thread start edge: the child inherits the parent's clock
	int p = curtid ();
	memcpy (g_vc[t], g_vc[p], sizeof (g_vc[t]));
	g_vc[t][t] = 1;
	if (reuse) for (int u = 0; u < RT_MAXT; u++) { if (saved_vc[u] > g_vc[t][u]) g_vc[t][u] = saved_vc[u]; if (u == t) g_vc[t][t] = saved_vc[t] + 1; }
	g_vc[p][p]++;
	f->prio = (g_cfg.strategy == RT_S_PCT) ? (int) (1000 + (rng_next () % 1000)) : 0;
	return t;
}

// ---------------------------------------------------------------- clock
extern "C" int64_t rt_now_ns (void) { return g_now; }
extern "C" void rt_clock_register (int64_t ns) { g_instants.push_back (ns); }
extern "C" int sim_clock_gettime (int, struct timespec *ts) {
	sched_point ();
	ts->tv_sec = (time_t) (g_now / 1000000000);
	ts->tv_nsec = (long) (g_now % 1000000000);
	return 0;
}

static int g_tracing = -1;
// ---------------------------------------------------------------- native semaphores
struct NSem { int32_t count; int32_t magic; };

extern "C" int rt_sem_flavour (void) { return g_cfg.sem_flavour; }
extern "C" void rt_sem_enter (void) { if (g_cur) g_cur->in_sem++; }
extern "C" void rt_sem_exit (void) { if (g_cur) { g_cur->in_sem--; g_cur->after_atomic = true; } }
extern "C" void rt_nsem_init (void *s) { NSem *n = (NSem *) s; n->count = 0; n->magic = 0x5e3a; }

static inline int64_t to_ns (int64_t sec, int64_t nsec) {
	if (sec > (INT64_MAX / 1000000000) - 1) return kNoDeadline - 1;
	if (sec < -(INT64_MAX / 1000000000) + 1) return INT64_MIN + 1;
	return sec * 1000000000 + nsec;
}

extern "C" void rt_nsem_p (void *s) {
	NSem *n = (NSem *) s;
	Fiber *f = g_cur;
	if (f == NULL) { if (n->count > 0) { n->count--; return; } raise_verdict (RT_V_DEADLOCK, 0, "main-blocked", "main context would block on a semaphore"); }
	f->touched_blocking = true;
	sched_point ();
	life_check ((uintptr_t) s, (uintptr_t) __builtin_return_address (0), true);
	while (n->count == 0) block_current (s, kNoDeadline);
	n->count--;
	g_progress++;
}
extern "C" int rt_nsem_p_deadline (void *s, int64_t sec, int64_t nsec, int no_deadline) {
	NSem *n = (NSem *) s;
	Fiber *f = g_cur;
	int64_t dl = no_deadline ? kNoDeadline : to_ns (sec, nsec);
	if (g_tracing > 0) fprintf (stderr, "[%6lu] T%d sem_p_deadline %p count=%d dl=%ld now=%ld nodl=%d\n", (unsigned long) g_st.steps, curtid (), s, n->count, (long) dl, (long) g_now, no_deadline);
	if (f == NULL) { if (n->count > 0) { n->count--; return 0; } if (dl <= g_now) return ETIMEDOUT; raise_verdict (RT_V_DEADLOCK, 0, "main-blocked", "main context would block on a semaphore"); }
	f->touched_blocking = true;
	sched_point ();
	life_check ((uintptr_t) s, (uintptr_t) __builtin_return_address (0), true);
	while (n->count == 0) {
		if (dl != kNoDeadline && dl <= g_now) { g_st.sem_timeouts++; return ETIMEDOUT; }
		block_current (s, dl);
	}
	n->count--;
	g_progress++;
	return 0;
}
extern "C" void rt_nsem_v (void *s) {
	NSem *n = (NSem *) s;
	sched_point ();
	life_check ((uintptr_t) s, (uintptr_t) __builtin_return_address (0), true);
	if (g_cfg.sem_flavour == RT_SEM_BINARY) n->count = 1; else n->count++;
	g_progress++;
	wake_waiters_on (s, RT_MAXT);
}

// ---------------------------------------------------------------- modelled futex
extern "C" long sim_syscall (long nr, ...) {
	va_list ap; va_start (ap, nr);
	int *uaddr = va_arg (ap, int *);
	int op = va_arg (ap, int);
	int val = va_arg (ap, int);
	const struct timespec *ts = va_arg (ap, const struct timespec *);
	va_end (ap);
	uintptr_t pc = (uintptr_t) __builtin_return_address (0);
	if (nr != SYS_futex) { errno = ENOSYS; return -1; }
	int cmd = op & FUTEX_CMD_MASK;
	Fiber *f = g_cur;
	if (cmd == FUTEX_WAIT_BITSET || cmd == FUTEX_WAIT) {
		if (f == NULL) {
			// main context (setup / finish): only the non-blocking outcomes are possible
			if (*(volatile int *) uaddr != val) { errno = EAGAIN; return -1; }
			if (ts != NULL && to_ns (ts->tv_sec, ts->tv_nsec) <= g_now) { errno = ETIMEDOUT; return -1; }
			raise_verdict (RT_V_DEADLOCK, 0, "main-blocked", "main context would block on a futex");
		}
		f->touched_blocking = true;
		sched_point ();
		life_check ((uintptr_t) uaddr, pc, false);
		int64_t dl = kNoDeadline;
		if (ts != NULL) {
			if (ts->tv_sec < 0 || ts->tv_nsec < 0 || ts->tv_nsec >= 1000000000) { errno = EINVAL; return -1; }
			dl = to_ns (ts->tv_sec, ts->tv_nsec);
			if (cmd == FUTEX_WAIT) dl = g_now + dl;   // relative
		}
		if (*(volatile int *) uaddr != val) { errno = EAGAIN; return -1; }
		// fault injection
		size_t idx = g_futex_wait_idx++;
		if (idx < g_cfg.nfutex_faults) {
			int k = g_cfg.futex_faults[idx];
			if (k == 1) { g_st.faults_injected++; rt_note_event ("fault_eintr"); errno = EINTR; return -1; }
			if (k == 2) { g_st.faults_injected++; rt_note_event ("fault_eagain"); errno = EAGAIN; return -1; }
			if (k == 3 && dl != kNoDeadline) { g_st.faults_injected++; rt_note_event ("fault_early_timeout"); errno = ETIMEDOUT; return -1; }
			if (k == 4) { g_st.faults_injected++; rt_note_event ("fault_spurious0"); return 0; }
		}
		if (dl != kNoDeadline && dl <= g_now) { g_st.sem_timeouts++; errno = ETIMEDOUT; return -1; }
		block_current (uaddr, dl);
		if (f->woken) return 0;
		g_st.sem_timeouts++;
		errno = ETIMEDOUT;
		return -1;
	} else if (cmd == FUTEX_WAKE) {
		sched_point ();
		life_check ((uintptr_t) uaddr, pc, false);
		int n = wake_waiters_on (uaddr, val);
		g_progress++;
		return n;
	}
	errno = ENOSYS;
	return -1;
}

// ---------------------------------------------------------------- allocator
extern "C" void *sim_malloc (size_t n, const char *file, int line) {
	g_st.allocs++;
	{
		bool match = true;
		if (g_cfg.alloc_fail_file != NULL) {
			match = false;
			size_t lf = strlen (file);
			const char *p = g_cfg.alloc_fail_file;
			while (*p) {
				const char *q = strchr (p, '|');
				size_t lw = q ? (size_t) (q - p) : strlen (p);
				if (lf >= lw && strncmp (file + lf - lw, p, lw) == 0) match = true;
				p += lw; if (*p == '|') p++;
			}
		}
		if (match) {
			g_st.allocs_matching++;
			if (g_cfg.alloc_fail_k > 0 && ++g_alloc_count_matching == g_cfg.alloc_fail_k) { g_st.alloc_failed++; return NULL; }
		}
	}
	size_t need = (n + 15) & ~(size_t) 15;
	if (need == 0) need = 16;
	size_t off = g_arena_top + 32;   // red zone
	if (off + need + 32 > kArenaSize || g_blocks.size () >= 65000) {
		g_st.budget_exceeded = 1;
		raise_verdict (RT_V_BUDGET, 0, "budget", "arena exhausted");
	}
	g_arena_top = off + need;
	Block b; b.off = (uint32_t) off; b.size = (uint32_t) n; b.freed = false; b.file = file; b.line = line; b.free_tid = -1; b.free_pc = 0;
	g_blocks.push_back (b);
	uint16_t bi = (uint16_t) g_blocks.size ();
	for (size_t g = off >> 4; g < (off + need) >> 4; g++) g_blkidx[g] = bi;
	void *p = (void *) (kBase + off);
	memset (p, 0xAB, need);
	return p;
}

extern "C" void sim_free (void *p) {
	if (p == NULL) return;
	uintptr_t a = (uintptr_t) p;
	uintptr_t pc = (uintptr_t) __builtin_return_address (0);
	if (!in_arena (a) || g_blkidx[(a - kBase) >> 4] == 0) raise_verdict (RT_V_CRASH, a, "badfree", "free of a pointer that was not allocated: %#lx", (unsigned long) a);
	Block &b = g_blocks[g_blkidx[(a - kBase) >> 4] - 1];
	if (b.freed) {
		char sig[160]; snprintf (sig, sizeof (sig), "freed:double-free:%s", simrt_fn_name (pc));
		raise_verdict (RT_V_FREED, a, sig, "double free of %#lx by T%d in %s", (unsigned long) a, curtid (), simrt_fn_name (pc));
	}
	if (kBase + b.off != a) raise_verdict (RT_V_CRASH, a, "badfree", "free of an interior pointer");
	// freeing is a write to the whole block: it must be ordered after every other access
	size_t need = (b.size + 15) & ~(size_t) 15;
	for (size_t o = 0; o < need; o += 4) hb_access (a + o, true, false, pc);
	if (g_hooks != NULL && g_hooks->on_free != NULL) g_hooks->on_free (g_hooks->arg, p, b.size);
	b.freed = true; b.free_tid = curtid (); b.free_pc = pc;
	// poison with a non-canonical pointer pattern
	uint64_t *q = (uint64_t *) p;
	for (size_t i = 0; i < need / 8; i++) q[i] = 0xdbdbdbdbdbdbdbdbull;
	g_progress++;
}

extern "C" int rt_is_freed (const void *p) {
	uintptr_t a = (uintptr_t) p;
	if (!in_arena (a)) return 0;
	uint16_t bi = g_blkidx[(a - kBase) >> 4];
	return bi != 0 && g_blocks[bi - 1].freed;
}

extern "C" void *sim_memset (void *p, int c, size_t n) {
	uintptr_t pc = (uintptr_t) __builtin_return_address (0);
	uintptr_t a = (uintptr_t) p;
	if (g_in_execute && n <= 4096) {
		if (g_cur && g_cur->after_atomic) { g_cur->after_atomic = false; sched_point (); }
		for (size_t o = 0; o < n; o += 4) { life_check (a + o, pc, true); hb_access (a + o, true, false, pc); }
	}
	return memset (p, c, n);
}

// ---------------------------------------------------------------- per-thread waiter, panic
static void *g_main_waiter; static void (*g_main_waiter_dest) (void *);
extern "C" void *rt_get_waiter (void) { return g_cur ? g_cur->waiter : g_main_waiter; }
extern "C" void rt_set_waiter (void *w, void (*dest) (void *)) {
	if (g_cur) { g_cur->waiter = w; g_cur->waiter_dest = dest; }
	else { g_main_waiter = w; g_main_waiter_dest = dest; }
}
extern "C" void rt_panic (const char *s) {
	char sig[160];
	char head[60]; size_t i;
	for (i = 0; i < sizeof (head) - 1 && s[i] != 0 && s[i] != '\n'; i++) head[i] = (s[i] == ' ') ? '_' : s[i];
	head[i] = 0;
	snprintf (sig, sizeof (sig), "crash:panic:%s", head);
	raise_verdict (RT_V_CRASH, 0, sig, "nsync_panic_: %s (T%d, api %s)", s, curtid (), api_of (g_cur));
}

// ---------------------------------------------------------------- tsan ABI
#define PC() ((uintptr_t) __builtin_return_address (0))

static inline void plain_access (uintptr_t addr, size_t size, bool is_write, uintptr_t pc) {
	if (!g_in_execute) return;
	if (addr >= g_cov_lo && addr < g_cov_hi) return;   // coverage counter of a fuzz build, not program data
	if (addr >= g_tls_lo && addr < g_tls_hi) return;   // a THREAD_LOCAL variable: private to the running thread
	g_st.plains++;
	if (g_st.plains > 4000000) {   // a loop without scheduling points (e.g. over a corrupted list): inconclusive
		g_st.budget_exceeded = 1;
		raise_verdict (RT_V_BUDGET, 0, "budget", "plain-access budget exceeded");
	}
	if (addr < 4096) {
		char sig[160]; snprintf (sig, sizeof (sig), "crash:assert:%s", simrt_fn_name (pc));
		raise_verdict (RT_V_CRASH, addr, sig, "store to the null page in %s by T%d (api %s, pc +%#lx): a failed ASSERT or a NULL dereference",
			       simrt_fn_name (pc), curtid (), api_of (g_cur), (unsigned long) (pc - g_mod_lo));
	}
	Fiber *f = g_cur;
	if (f && f->after_atomic) { f->after_atomic = false; sched_point (); }
	life_check (addr, pc, is_write);
	hb_access (addr, is_write, false, pc);
	if (size > 4) for (size_t o = 4; o < size; o += 4) hb_access (addr + o, is_write, false, pc);
}

extern "C" {
void __tsan_init (void) {}
void __tsan_func_entry (void *) {
	Fiber *f = g_cur;
	if (f && f->csn < 64) f->cs[f->csn] = PC ();
	if (f) f->csn++;
}
void __tsan_func_exit (void) { Fiber *f = g_cur; if (f && f->csn > 0) f->csn--; }
void __tsan_read1 (void *a) { plain_access ((uintptr_t) a, 1, false, PC ()); }
void __tsan_read2 (void *a) { plain_access ((uintptr_t) a, 2, false, PC ()); }
void __tsan_read4 (void *a) { plain_access ((uintptr_t) a, 4, false, PC ()); }
void __tsan_read8 (void *a) { plain_access ((uintptr_t) a, 8, false, PC ()); }
void __tsan_read16 (void *a) { plain_access ((uintptr_t) a, 16, false, PC ()); }
void __tsan_write1 (void *a) { plain_access ((uintptr_t) a, 1, true, PC ()); }
void __tsan_write2 (void *a) { plain_access ((uintptr_t) a, 2, true, PC ()); }
void __tsan_write4 (void *a) { plain_access ((uintptr_t) a, 4, true, PC ()); }
void __tsan_write8 (void *a) { plain_access ((uintptr_t) a, 8, true, PC ()); }
void __tsan_write16 (void *a) { plain_access ((uintptr_t) a, 16, true, PC ()); }
void __tsan_unaligned_read2 (void *a) { plain_access ((uintptr_t) a, 2, false, PC ()); }
void __tsan_unaligned_read4 (void *a) { plain_access ((uintptr_t) a, 4, false, PC ()); }
void __tsan_unaligned_read8 (void *a) { plain_access ((uintptr_t) a, 8, false, PC ()); }
void __tsan_unaligned_write2 (void *a) { plain_access ((uintptr_t) a, 2, true, PC ()); }
void __tsan_unaligned_write4 (void *a) { plain_access ((uintptr_t) a, 4, true, PC ()); }
void __tsan_unaligned_write8 (void *a) { plain_access ((uintptr_t) a, 8, true, PC ()); }
void __tsan_vptr_update (void **, void *) {}
void __tsan_vptr_read (void **) {}
void __tsan_read_range (void *a, unsigned long n) { for (unsigned long o = 0; o < n; o += 4) plain_access ((uintptr_t) a + o, 4, false, PC ()); }
void __tsan_write_range (void *a, unsigned long n) { for (unsigned long o = 0; o < n; o += 4) plain_access ((uintptr_t) a + o, 4, true, PC ()); }

static inline void trace_atomic (const char *op, uintptr_t addr, uintptr_t pc, uint32_t oldv, uint32_t newv, int mo) {
	if (g_tracing < 0) g_tracing = getenv ("SIMRT_TRACE") != NULL;
	if (!g_tracing) return;
	fprintf (stderr, "[%6lu] T%d %-28s %-10s %#lx %#x -> %#x mo=%d (api %s)\n", (unsigned long) g_st.steps, curtid (), simrt_fn_name (pc), op,
		 (unsigned long) addr, oldv, newv, mo, api_of (g_cur));
}
static inline void atomic_pre (uintptr_t addr, uintptr_t pc, bool is_write) {
	g_st.atomics++;
	if (g_cur) sched_point ();
	life_check (addr, pc, is_write);
}

int32_t __tsan_atomic32_load (const volatile int32_t *a, int mo) {
	uintptr_t pc = PC ();
	if (!g_in_execute) return *a;
	atomic_pre ((uintptr_t) a, pc, false);
	int32_t v = *a;
	trace_atomic ("load", (uintptr_t) a, pc, (uint32_t) v, (uint32_t) v, mo);
	hb_access ((uintptr_t) a, false, true, pc);
	hb_atomic_load ((uintptr_t) a, mo);
	if (g_cur) g_cur->after_atomic = true;
	return v;
}
void __tsan_atomic32_store (volatile int32_t *a, int32_t v, int mo) {
	uintptr_t pc = PC ();
	if (!g_in_execute) { *a = v; return; }
	atomic_pre ((uintptr_t) a, pc, true);
	trace_atomic ("store", (uintptr_t) a, pc, (uint32_t) *a, (uint32_t) v, mo);
	*a = v;
	hb_access ((uintptr_t) a, true, true, pc);
	hb_atomic_store ((uintptr_t) a, mo);
	g_progress++;
	if (g_cur) g_cur->after_atomic = true;
}
int32_t __tsan_atomic32_compare_exchange_val (volatile int32_t *a, int32_t expected, int32_t desired, int mo, int fmo) {
	uintptr_t pc = PC ();
	if (!g_in_execute) { int32_t o = *a; if (o == expected) *a = desired; return o; }
	atomic_pre ((uintptr_t) a, pc, true);
	int32_t old = *a;
	trace_atomic (old == expected ? "cas-ok" : "cas-fail", (uintptr_t) a, pc, (uint32_t) old, (uint32_t) (old == expected ? desired : old), mo);
	if (old == expected) {
		*a = desired;
		hb_access ((uintptr_t) a, true, true, pc);
		hb_atomic_rmw ((uintptr_t) a, mo);
		g_progress++;
	} else {
		hb_access ((uintptr_t) a, false, true, pc);
		hb_atomic_load ((uintptr_t) a, fmo);
		g_st.cas_fail++;
	}
	if (g_cur) g_cur->after_atomic = true;
	return old;
}
int __tsan_atomic32_compare_exchange_strong (volatile int32_t *a, int32_t *expected, int32_t desired, int mo, int fmo) {
	int32_t e = *expected;
	uintptr_t pc = PC ();
	if (!g_in_execute) { int32_t o = *a; if (o == e) { *a = desired; return 1; } *expected = o; return 0; }
	atomic_pre ((uintptr_t) a, pc, true);
	int32_t old = *a;
	int ok = 0;
	if (old == e) {
		*a = desired; ok = 1;
		hb_access ((uintptr_t) a, true, true, pc);
		hb_atomic_rmw ((uintptr_t) a, mo);
		g_progress++;
	} else {
		*expected = old;
		hb_access ((uintptr_t) a, false, true, pc);
		hb_atomic_load ((uintptr_t) a, fmo);
		g_st.cas_fail++;
	}
	if (g_cur) g_cur->after_atomic = true;
	return ok;
}
int __tsan_atomic32_compare_exchange_weak (volatile int32_t *a, int32_t *expected, int32_t desired, int mo, int fmo) {
	return __tsan_atomic32_compare_exchange_strong (a, expected, desired, mo, fmo);
}
int32_t __tsan_atomic32_exchange (volatile int32_t *a, int32_t v, int mo) {
	uintptr_t pc = PC ();
	if (!g_in_execute) { int32_t o = *a; *a = v; return o; }
	atomic_pre ((uintptr_t) a, pc, true);
	int32_t old = *a; *a = v;
	hb_access ((uintptr_t) a, true, true, pc);
	hb_atomic_rmw ((uintptr_t) a, mo);
	g_progress++;
	if (g_cur) g_cur->after_atomic = true;
	return old;
}
#define RMW32(name, expr) \
int32_t __tsan_atomic32_##name (volatile int32_t *a, int32_t v, int mo) { \
	uintptr_t pc = PC (); \
	if (!g_in_execute) { int32_t o = *a; *a = (expr); return o; } \
	atomic_pre ((uintptr_t) a, pc, true); \
	int32_t o = *a; *a = (expr); \
	hb_access ((uintptr_t) a, true, true, pc); \
	hb_atomic_rmw ((uintptr_t) a, mo); \
	g_progress++; \
	if (g_cur) g_cur->after_atomic = true; \
	return o; \
}
RMW32 (fetch_add, o + v)
RMW32 (fetch_sub, o - v)
RMW32 (fetch_and, o & v)
RMW32 (fetch_or, o | v)
RMW32 (fetch_xor, o ^ v)
void __tsan_atomic_thread_fence (int) {}
void __tsan_atomic_signal_fence (int) {}

// Annotations nsync emits when __SANITIZE_THREAD__ is defined.  The "ignore"
// requests are ignored (we do look); the RWLock ones are a second observation
// point inside the library.
void AnnotateIgnoreReadsBegin (const char *, int) {}
void AnnotateIgnoreReadsEnd (const char *, int) {}
void AnnotateIgnoreWritesBegin (const char *, int) {}
void AnnotateIgnoreWritesEnd (const char *, int) {}
void AnnotateRWLockCreate (const char *, int, void *) {}
void AnnotateRWLockAcquired (const char *file, int line, void *mu, long w) { if (g_rwlock_cb && g_in_execute) g_rwlock_cb (mu, (int) w, 1, file, line); }
void AnnotateRWLockReleased (const char *file, int line, void *mu, long w) { if (g_rwlock_cb && g_in_execute) g_rwlock_cb (mu, (int) w, 0, file, line); }

void rt_read (const void *p, size_t n) { plain_access ((uintptr_t) p, n, false, PC ()); }
void rt_write (void *p, size_t n) { plain_access ((uintptr_t) p, n, true, PC ()); }
}

// ---------------------------------------------------------------- crash handling
static stack_t g_altstack;
static void on_segv (int sig, siginfo_t *si, void *) {
	if (!g_in_execute) { signal (sig, SIG_DFL); raise (sig); return; }
	va_list ap; memset (&ap, 0, sizeof (ap));
	if (g_verdict.kind == RT_V_NONE) {
		g_verdict.kind = RT_V_CRASH;
		g_verdict.tid = curtid ();
		g_verdict.addr = (uint64_t) (uintptr_t) si->si_addr;
		const char *fn = "?";
		if (g_cur && g_cur->csn > 0) fn = simrt_fn_name (g_cur->cs[std::min (g_cur->csn, 64) - 1]);
		snprintf (g_verdict.sig, sizeof (g_verdict.sig), "crash:signal%d:%s", sig, fn);
		snprintf (g_verdict.msg, sizeof (g_verdict.msg), "signal %d at address %#lx in T%d (innermost nsync function %s, api %s)",
			  sig, (unsigned long) (uintptr_t) si->si_addr, curtid (), fn, api_of (g_cur));
	}
	g_cur = NULL;
	siglongjmp (g_main_env, 2);
}

static void install_handlers () {
	static bool done;
	if (done) return;
	done = true;
	g_altstack.ss_sp = malloc (1 << 16);
	g_altstack.ss_size = 1 << 16;
	sigaltstack (&g_altstack, NULL);
	struct sigaction sa; memset (&sa, 0, sizeof (sa));
	sa.sa_sigaction = on_segv;
	sa.sa_flags = SA_SIGINFO | SA_ONSTACK | SA_NODEFER;
	sigaction (SIGSEGV, &sa, NULL);
	sigaction (SIGBUS, &sa, NULL);
	sigaction (SIGILL, &sa, NULL);
	sigaction (SIGFPE, &sa, NULL);
}

// ---------------------------------------------------------------- one execution
static uint64_t fnv (const uint8_t *p, size_t n) {
	uint64_t h = 1469598103934665603ull;
	for (size_t i = 0; i < n; i++) { h ^= p[i]; h *= 1099511628211ull; }
	return h;
}

extern "C" void rt_execute (const rt_config *cfg, const rt_hooks *hooks, rt_verdict *v, rt_stats *st) {
	region_init ();
	install_handlers ();
	if (g_cells == NULL) {
		g_cells = (Cell *) calloc (kCells, sizeof (Cell));
		g_sync = (SyncCell *) calloc (kSyncCells, sizeof (SyncCell));
		g_blkidx = (uint16_t *) calloc (kArenaSize >> 4, sizeof (uint16_t));
	}
	g_cfg = *cfg;
	if (g_cfg.step_budget <= 0) g_cfg.step_budget = 200000;
	if (g_cfg.switch_shift < 0) g_cfg.switch_shift = 0;
	g_hooks = hooks;
	memset (&g_verdict, 0, sizeof (g_verdict));
	memset (&g_st, 0, sizeof (g_st));
	// reset static state of nsync + interpreter
	for (auto &s : g_segs) memcpy ((void *) s.addr, s.snap.data (), s.size);
	// reset arena
	if (g_arena_top > 0) memset (g_blkidx, 0, ((g_arena_top + 64) >> 4) * sizeof (uint16_t));
	g_blocks.clear ();
	g_arena_top = 0;
	g_gen++; g_cells_used = 0; g_sync_used = 0;
	memset (g_vc, 0, sizeof (g_vc)); g_vc[0][0] = 1;
	memset (g_hsync, 0, sizeof (g_hsync));
	for (int t = 0; t < RT_MAXT; t++) { memset (&g_fib[t], 0, sizeof (Fiber)); g_fib[t].tid = t; }
	g_cur = NULL;
	g_now = (int64_t) RT_EPOCH_SEC * 1000000000;
	g_instants.clear ();
	g_progress = 0;
	g_rng = cfg->seed * 0x2545f4914f6cdd1dull + 0x1234567;
	g_bytepos = 0; g_rr_next = 0; g_futex_wait_idx = 0; g_alloc_count_matching = 0;
	g_quiescent_livelock = false; g_main_yields = 0;
	g_trace.clear ();
	g_main_waiter = NULL; g_main_waiter_dest = NULL;
	memset (g_main_tls, 0, sizeof (g_main_tls));   // (the live copy was reset with the module's segments above)
	g_pct_nchange = 0; g_pct_low = 500; g_clock_prio = 0;
	if (g_cfg.strategy == RT_S_PCT) {
		int d = std::max (1, std::min (g_cfg.pct_depth, 8));
		int k = std::max (g_cfg.pct_len, 10);
		for (int i = 0; i < d - 1; i++) g_pct_change[g_pct_nchange++] = (int) (rng_next () % (uint64_t) k);
		g_clock_prio = (int) (rng_next () % 2000);
	}
	g_in_execute = true;
	int jr = sigsetjmp (g_main_env, 1);
	if (jr == 0) {
		hooks->setup (hooks->arg);
		for (;;) {
			if (g_verdict.kind != RT_V_NONE) break;
			// run fibers until control comes back to main
			bool any_unfinished = false;
			for (int t = 1; t < RT_MAXT; t++) if (g_fib[t].state != F_UNUSED && g_fib[t].state != F_FINISHED) any_unfinished = true;
			if (!any_unfinished) break;
			bool ll = g_quiescent_livelock;
			if (!ll) {
				// pick somebody (forced choice from main)
				for (;;) {
					int c = choose (false);
					if (c == RT_CLOCK_ID) { clock_move (); continue; }
					if (c >= 0) {
						g_trace.push_back ((uint8_t) c);
						g_st.steps++;
						switch_to (&g_fib[c]);
					}
					break;
				}
				if (g_verdict.kind != RT_V_NONE) break;
				// back on main: either all finished, quiescent, or livelock
				any_unfinished = false;
				for (int t = 1; t < RT_MAXT; t++) if (g_fib[t].state != F_UNUSED && g_fib[t].state != F_FINISHED) any_unfinished = true;
				if (!any_unfinished) break;
				int en[RT_MAXT];
				if (!g_quiescent_livelock && (collect_enabled (en) > 0 || clock_enabled ())) continue;
			}
			ll = g_quiescent_livelock;
			// a quiescence is a global barrier: the handler (main context) sees everything every thread did,
			// and every thread that continues sees what the handler did
			for (int t = 1; t < RT_MAXT; t++) for (int u = 0; u < RT_MAXT; u++) if (g_vc[t][u] > g_vc[0][u]) g_vc[0][u] = g_vc[t][u];
			g_vc[0][0]++;
			int r = hooks->at_quiescence ? hooks->at_quiescence (hooks->arg, ll ? 1 : 0) : 0;
			g_vc[0][0]++;
			for (int t = 1; t < RT_MAXT; t++) for (int u = 0; u < RT_MAXT; u++) if (g_vc[0][u] > g_vc[t][u]) g_vc[t][u] = g_vc[0][u];
			g_quiescent_livelock = false;
			if (g_verdict.kind != RT_V_NONE) break;
			if (!r) {
				// final: deadlock or livelock
				char sig[160]; char who[300]; who[0] = 0; size_t wl = 0;
				const char *first_api = "-";
				for (int t = 1; t < RT_MAXT; t++) {
					Fiber *f = &g_fib[t];
					if (f->state == F_UNUSED || f->state == F_FINISHED) continue;
					if (first_api[0] == '-') first_api = api_of (f);
					wl += (size_t) snprintf (who + wl, sizeof (who) - wl, " T%d:%s(%s)", t,
						f->state == F_BLOCKED ? "blocked" : f->state == F_FROZEN ? "frozen" : f->state == F_GATE ? "gate" : "spinning", api_of (f));
					if (wl >= sizeof (who)) break;
				}
				snprintf (sig, sizeof (sig), "%s:%s", ll ? "livelock" : "deadlock", first_api);
				va_list ap; memset (&ap, 0, sizeof (ap));
				g_verdict.kind = ll ? RT_V_LIVELOCK : RT_V_DEADLOCK;
				snprintf (g_verdict.sig, sizeof (g_verdict.sig), "%s", sig);
				snprintf (g_verdict.msg, sizeof (g_verdict.msg), "%s: unfinished threads:%s", ll ? "livelock" : "deadlock", who);
				break;
			}
			for (int t = 1; t < RT_MAXT; t++) g_fib[t].spin_yields = 0;
		}
		if (g_verdict.kind == RT_V_NONE && hooks->finish) {
			rt_hb_join_all ();
			hooks->finish (hooks->arg);
		}
	}
	g_in_execute = false;
	g_cur = NULL;
	g_st.trace_hash = fnv (g_trace.data (), g_trace.size ());
	*v = g_verdict;
	*st = g_st;
}
