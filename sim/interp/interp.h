/* Scenario interpreter: common definitions.  The interpreter is compiled as C or
   C++ (for the C++ flavour of nsync) WITHOUT tsan instrumentation; client data
   accesses are instrumented explicitly with CL_READ / CL_WRITE.  */
#ifndef VERIF_INTERP_H_
#define VERIF_INTERP_H_

#include <stdint.h>
#include <stddef.h>
#include <stdio.h>
#include <stdarg.h>
#include <string.h>
#include <errno.h>
#include <alloca.h>
#include "simrt_c.h"

/* property ids */
enum { P_C01 = 1, P_C02, P_C03, P_C04, P_C05, P_C06, P_C07, P_C08, P_C09, P_C10,
       P_C11, P_C12, P_C13, P_C14, P_C15, P_C16, P_C17, P_C18, P_C19 };

/* program families */
enum { FAM_MON = 0, FAM_LOCK, FAM_ONCE, FAM_NOTE, FAM_CTR, FAM_WAITN, FAM_SEM, FAM_REF, FAM_ALLOC, FAM_STARVE, FAM_DEBUGBUF, FAM_NOTEFREE, FAM_N };

typedef struct interp_result_s {
	rt_verdict v;
	rt_stats st;
	uint64_t prog_hash;
	int family;
	int nontrivial;     /* by the rule of the property under check */
	int owned;          /* verdict belongs to the property under check */
	int excluded;       /* case outside the strict scope of the property's oracle (still run) */
	int nthreads;
	int nops;
	int sub_evaluations;  /* ALLOC: executions (fault positions) enumerated inside this case */
	int sub_nontrivial;
} interp_result;

#if defined(__cplusplus)
extern "C" {
#endif
/* Run one case.  want_dump: also write a human-readable description of the
   decoded case to dump (size dumpsz).  */
void interp_run (const uint8_t *tape, size_t n, int prop, int family_override, interp_result *res, char *dump, size_t dumpsz);
/* Re-run with an explicit trace (REPLAY strategy) */
void interp_replay (const uint8_t *tape, size_t n, int prop, int family_override, const uint8_t *trace, size_t ntrace, interp_result *res);
#if defined(__cplusplus)
}
#endif

#endif
