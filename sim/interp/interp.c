/* Scenario interpreter (DESIGN.md section 5).  Decodes a tape into a small
   concurrent program of one family, runs it on simrt and applies the oracles.
   Compiled as C or C++; NOT tsan-instrumented: client data is instrumented
   explicitly (CL_READ / CL_WRITE).  All static state lives in the module's
   writable segment, which simrt restores at the top of every execution, so
   nothing leaks between cases; the per-run context is re-installed from the
   hook argument.  */
#include "interp.h"
#include "nsync.h"

NSYNC_CPP_USING_

/* ------------------------------------------------------------------ tape */
typedef struct { const uint8_t *p; size_t n, pos; } tape_t;
static unsigned tb (tape_t *t) { return (t->pos < t->n) ? t->p[t->pos++] : 0; }
static unsigned tr (tape_t *t, unsigned k) { return (k != 0) ? tb (t) % k : 0; }
static uint32_t t32 (tape_t *t) { uint32_t v = tb (t); v |= tb (t) << 8; v |= tb (t) << 16; v |= (uint32_t) tb (t) << 24; return (v); }

/* ------------------------------------------------------------------ run context */
typedef struct run_ctx_s {
	const uint8_t *tape; size_t n;
	int prop; int family;
	interp_result *res;
	char *dump; size_t dumpsz; size_t dumppos;
	size_t hdr;                /* bytes of the tape consumed by the config header */
	uint8_t faults[8];         /* futex fault vector (SEM family) */
	char alloc_file[32];
	int sem_enumerate;         /* SEM family: enumerate every placement of <=2 faults for this case */
} run_ctx;
static run_ctx *G;

static void D (const char *fmt, ...) {
	va_list ap;
	if (G == NULL || G->dump == NULL || G->dumppos + 1 >= G->dumpsz) return;
	va_start (ap, fmt);
	int k = vsnprintf (G->dump + G->dumppos, G->dumpsz - G->dumppos, fmt, ap);
	va_end (ap);
	if (k > 0) { G->dumppos += (size_t) k; if (G->dumppos >= G->dumpsz) G->dumppos = G->dumpsz - 1; }
}

static uint64_t fnv64 (const void *p, size_t n, uint64_t h) {
	const uint8_t *b = (const uint8_t *) p;
	size_t i;
	for (i = 0; i < n; i++) { h ^= b[i]; h *= 1099511628211ull; }
	return (h);
}

#define PAD_BYTES 4096
#define STACK_PAD() do { volatile char *pad__ = (volatile char *) alloca (PAD_BYTES); pad__[0] = 0; } while (0)
/* Every bracketed call first moves the stack pointer down by a pad, so that the frames of successive nsync calls
   of one thread never overlap: a stale pointer into an earlier call's frame is then always outside the live
   window [saved sp, entry sp) of the current call (DESIGN 3.5).  */
#define API_BEGIN(name_) do { uintptr_t sp__; STACK_PAD (); __asm__ volatile ("mov %%rsp, %0" : "=r" (sp__)); rt_call_begin_sp ((name_), sp__); } while (0)
#define API_END() rt_call_end ()

#define CL_READ(lv_) (rt_read (&(lv_), sizeof (lv_)), (lv_))
#define CL_WRITE(lv_, v_) do { rt_write (&(lv_), sizeof (lv_)); (lv_) = (v_); } while (0)

/* oracle failure: sig prefix names the owning properties, e.g. "C01:overlap" */
#define FAIL(sig_, ...) rt_fail (RT_V_ORACLE, (sig_), __VA_ARGS__)

static nsync_time ns_to_time (int64_t ns) {
	int64_t s = ns / 1000000000, r = ns % 1000000000;
	if (r < 0) { r += 1000000000; s -= 1; }   /* normalized: 0 <= nanoseconds < 1e9 also before the epoch */
	return (nsync_time_s_ns ((time_t) s, (unsigned) r));
}

#define DL_NO INT64_MIN   /* "no deadline"; every family other than MON only ever sees it or non-negative deadlines */
#define DL_NONE 0
#define DL_PAST 1
#define DL_SOON 2
#define DL_LATER 3
/* returns absolute ns, or DL_NO for no deadline; registers future instants with the clock */
static int64_t make_deadline (int kind, int salt) {
	int64_t now = rt_now_ns ();
	int64_t d;
	switch (kind & 3) {
	case DL_NONE: return (DL_NO);
	case DL_PAST:
		if (G != NULL && G->prop == P_C15) {
			/* C15's domain: any past instant, including instants before the epoch */
			static const int64_t pre[] = { 0, -1, -1000000000, -2147483648LL * 1000000000, INT64_MIN / 2, 1, 1000000000 };
			if ((salt & 1) == 0) return (now - 1000000000 - (int64_t) (salt >> 1) * 1000);
			return (pre[(salt >> 1) % 7]);
		}
		return ((salt & 1) ? 0 : now - 1000000000);
	case DL_SOON: d = now + 1000 * (1 + (salt % 3)); break;
	default: d = now + 1000000 * (1 + (salt % 3)); break;
	}
	rt_clock_register (d);
	return (d);
}
static nsync_time dl_time (int64_t d) { return (d == DL_NO ? nsync_time_no_deadline : ns_to_time (d)); }
/* The C++ build also offers every timed entry point with a std::chrono time_point deadline (inline overloads in
   public/nsync_time_internal.h).  In the cpp11 flavour a bit of the operation's salt byte decides whether a finite
   deadline goes through that overload (nsync_time_no_deadline has no time_point: it would overflow int64 ns).  */
#if defined(__cplusplus) && defined(NSYNC_USE_CPP11_TIMEPOINT)
#define WITH_DEADLINE(dl_, salt_, call_dl_, call_tp_) (((dl_) != DL_NO && ((((unsigned) (salt_)) >> 6) & 1)) ? (call_tp_) : (call_dl_))
#define DL_TP(dl_) (nsync_to_time_point_ (ns_to_time (dl_)))
#else
#define WITH_DEADLINE(dl_, salt_, call_dl_, call_tp_) (call_dl_)
#define DL_TP(dl_) (dl_time (dl_))
#endif
static const char *dl_name (int k) { static const char *n[] = { "none", "past", "soon", "later" }; return (n[k & 3]); }

#include "fam_mon.inc"
#include "fam_once.inc"
#include "fam_ctr.inc"
#include "fam_note.inc"
#include "fam_notefree.inc"
#include "fam_waitn.inc"
#include "fam_sem.inc"
#include "fam_ref.inc"
#include "fam_starve.inc"
#include "fam_alloc.inc"
#include "fam_debugbuf.inc"
#include "fam_misc.inc"

/* ------------------------------------------------------------------ ownership of verdicts */
/* Oracle signatures start with the ids of the owning properties ("C01,C16:...").
   Runtime verdicts are mapped by kind and by the calls the property speaks about. */
static int sig_has_prop (const char *sig, int prop) {
	char id[8];
	const char *colon = strchr (sig, ':');
	const char *p;
	snprintf (id, sizeof (id), "C%02d", prop);
	p = strstr (sig, id);
	return (p != NULL && colon != NULL && p < colon);
}

static int verdict_owned (run_ctx *c, const rt_verdict *v) {
	int prop = c->prop;
	switch (v->kind) {
	case RT_V_NONE: case RT_V_BUDGET: case RT_V_REPLAYDIV: return (0);
	case RT_V_ORACLE: return (sig_has_prop (v->sig, prop));
	case RT_V_RACE: return (prop == P_C03);
	case RT_V_FREED:
		if (c->family == FAM_NOTE || c->family == FAM_NOTEFREE) return (prop == P_C09);
		if (c->family == FAM_WAITN) return (prop == P_C11 || prop == P_C13);
		return (prop == P_C13);
	case RT_V_DEADSTACK: return (prop == P_C13 || prop == P_C11);
	case RT_V_DEADLOCK: case RT_V_LIVELOCK:
		switch (c->family) {
		case FAM_LOCK: case FAM_STARVE: return (prop == P_C02 || (prop == P_C16 && fam_has_debug ()));
		case FAM_MON: return (prop == P_C02 || prop == P_C04 || prop == P_C05 || prop == P_C06 || prop == P_C15 || (prop == P_C16 && fam_has_debug ()));
		case FAM_ONCE: return (prop == P_C07);
		case FAM_NOTE: return (prop == P_C08 || prop == P_C09);
		case FAM_NOTEFREE: return (prop == P_C09);
		case FAM_CTR: return (prop == P_C10);
		case FAM_WAITN: return (prop == P_C11);
		case FAM_SEM: return (prop == P_C12);
		case FAM_REF: return (prop == P_C13 || prop == P_C02);
		default: return (0);
		}
	case RT_V_CRASH:
		/* a crash inside a call the property's statement speaks about */
		switch (c->family) {
		case FAM_LOCK: case FAM_STARVE: return (prop == P_C01 || prop == P_C02 || prop == P_C14 || prop == P_C16);
		case FAM_MON: return (prop == P_C01 || prop == P_C02 || prop == P_C04 || prop == P_C05 || prop == P_C06 || prop == P_C16 || prop == P_C15);
		case FAM_ONCE: return (prop == P_C07);
		case FAM_NOTE: return (prop == P_C08 || prop == P_C09);
		case FAM_NOTEFREE: return (prop == P_C09);
		case FAM_CTR: return (prop == P_C10);
		case FAM_WAITN: return (prop == P_C11 || prop == P_C13);
		case FAM_SEM: return (prop == P_C12);
		case FAM_REF: return (prop == P_C13);
		case FAM_ALLOC: return (prop == P_C19);
		case FAM_DEBUGBUF: return (prop == P_C16);
		default: return (0);
		}
	}
	return (0);
}

/* ------------------------------------------------------------------ family table */
typedef struct family_s {
	const char *name;
	void (*setup) (void *arg);
	int (*at_quiescence) (void *arg, int livelock);
	void (*finish) (void *arg);
	int (*nontrivial) (run_ctx *c, const rt_stats *st);
	void (*tune) (run_ctx *c, rt_config *cfg);
} family;

static const family families[FAM_N] = {
	/* FAM_MON */    { "MON", mon_setup, mon_quiescence, mon_finish, mon_nontrivial, NULL },
	/* FAM_LOCK */   { "LOCK", mon_setup, mon_quiescence, mon_finish, mon_nontrivial, NULL },
	/* FAM_ONCE */   { "ONCE", once_setup, once_quiescence, once_finish, once_nontrivial, NULL },
	/* FAM_NOTE */   { "NOTE", nt_setup, nt_quiescence, nt_finish, nt_nontrivial, NULL },
	/* FAM_CTR */    { "CTR", ctr_setup, ctr_quiescence, ctr_finish, ctr_nontrivial, NULL },
	/* FAM_WAITN */  { "WAITN", wn_setup, wn_quiescence, wn_finish, wn_nontrivial, NULL },
	/* FAM_SEM */    { "SEM", sm_setup, sm_quiescence, sm_finish, sm_nontrivial, sm_tune },
	/* FAM_REF */    { "REF", rf_setup, rf_quiescence, rf_finish, rf_nontrivial, NULL },
	/* FAM_ALLOC */  { "ALLOC", al_setup, al_quiescence, al_finish, al_nontrivial, NULL },
	/* FAM_STARVE */ { "STARVE", sv_setup, sv_quiescence, sv_finish, sv_nontrivial, sv_tune },
	/* FAM_DEBUGBUF */ { "DEBUGBUF", db_setup, db_quiescence, db_finish, db_nontrivial, db_tune },
	/* FAM_NOTEFREE */ { "NOTEFREE", nf_setup, nf_quiescence, nf_finish, nf_nontrivial, NULL },
};

/* Which family a property's check runs by default when the tape's family byte is b. */
static int pick_family (int prop, unsigned b) {
	switch (prop) {
	case P_C01: return ((b % 8) == 7 ? FAM_STARVE : (b % 4) == 0 ? FAM_LOCK : FAM_MON);   /* STARVE: a waiter woken more than 30 times */
	case P_C02: return ((b % 8) == 7 ? FAM_STARVE : (b % 2) == 0 ? FAM_LOCK : FAM_MON);   /* STARVE: long lock/unlock sequences */
	case P_C03: { static const int f[] = { FAM_MON, FAM_LOCK, FAM_ONCE, FAM_NOTE, FAM_CTR, FAM_WAITN, FAM_MON, FAM_WAITN }; return (f[b % 8]); }
	case P_C04: case P_C05: case P_C06: return (FAM_MON);
	case P_C07: return (FAM_ONCE);
	case P_C08: return (FAM_NOTE);
	case P_C09: return (FAM_NOTEFREE);
	case P_C10: return (FAM_CTR);
	case P_C11: { static const int f[] = { FAM_MON, FAM_WAITN, FAM_WAITN, FAM_WAITN, FAM_MON, FAM_WAITN, FAM_NOTE, FAM_WAITN }; return (f[b % 8]); }
	case P_C12: return (FAM_SEM);
	case P_C13: { static const int f[] = { FAM_REF, FAM_WAITN, FAM_MON, FAM_REF, FAM_MON, FAM_WAITN, FAM_CTR, FAM_NOTE }; return (f[b % 8]); }
	case P_C14: return (FAM_STARVE);
	case P_C15: return (FAM_MON);
	case P_C16: { static const int f[] = { FAM_LOCK, FAM_MON, FAM_DEBUGBUF, FAM_MON }; return (f[b % 4]); }
	case P_C19: return (FAM_ALLOC);
	default: return (FAM_MON);
	}
}

/* ------------------------------------------------------------------ entry points */
static void decode_config (tape_t *t, run_ctx *c, rt_config *cfg, int family_override) {
	unsigned s;
	memset (cfg, 0, sizeof (*cfg));
	s = tr (t, 6);
	cfg->seed = t32 (t);
	cfg->sem_flavour = (int) tr (t, 3);
	{
		unsigned f = tb (t);
		cfg->freeze_at = ((f & 3) == 1) ? (int) (8 * (f >> 2)) : -1;
	}
	cfg->clock_weight = 4 << tr (t, 4);   /* 4, 8, 16, 32 */
	{
		unsigned fb = tb (t);   /* always consumed, so that a tape decodes the same with and without an override */
		c->family = (family_override >= 0) ? family_override : pick_family (c->prop, fb);
	}
	switch (s) {
	case 0: cfg->strategy = RT_S_RANDOM; cfg->switch_shift = 2; break;
	case 1: cfg->strategy = RT_S_RANDOM; cfg->switch_shift = 0; break;
	case 2: cfg->strategy = RT_S_RANDOM; cfg->switch_shift = 4; break;
	case 3: cfg->strategy = RT_S_PCT; cfg->pct_depth = 2; cfg->pct_len = 200 + (int) (cfg->seed % 800); break;
	case 4: cfg->strategy = RT_S_PCT; cfg->pct_depth = 3; cfg->pct_len = 200 + (int) (cfg->seed % 1500); break;
	default: cfg->strategy = RT_S_BYTES; break;   /* bytes: the tail of the tape, set after the program is decoded */
	}
	cfg->step_budget = 200000;
	/* a check arms the oracles its property owns (plus crash / deadlock detection, which are always on) */
	cfg->hb_off = (c->prop != P_C03);
	cfg->life_off = !(c->prop == P_C09 || c->prop == P_C11 || c->prop == P_C13 || c->prop == P_C03);
	c->hdr = t->pos;
}

static void run_common (run_ctx *c, rt_config *cfg, interp_result *res) {
	const family *f = &families[c->family];
	rt_hooks hooks;
	memset (res, 0, sizeof (*res));
	if (f->setup == NULL) {
		res->family = c->family;
		return;
	}
	if (f->tune != NULL) f->tune (c, cfg);
	if (c->family != FAM_SEM && cfg->sem_flavour == RT_SEM_FUTEX && cfg->futex_faults == NULL && (cfg->seed & 3) == 0) {
		/* The real futex file runs under every family, so let the modelled kernel misbehave there too (SEM programs
		   generate and enumerate their own vectors): in a quarter of the futex-flavour cases one or two of the first
		   six FUTEX_WAITs return EINTR, EAGAIN or a premature ETIMEDOUT - answers a real kernel may give, and which
		   the semaphore has to absorb without the layers above noticing (round-7 seed M10: the premature ETIMEDOUT
		   was believed, and a cancel note was notified before its deadline).  Derived from the seed word, so the
		   tape layout is unchanged.  */
		uint32_t x = (uint32_t) (cfg->seed >> 2);
		memset (c->faults, 0, sizeof (c->faults));
		c->faults[x % 6] = (uint8_t) (1 + (x >> 3) % 3);
		if ((x >> 5) & 1) c->faults[(x >> 6) % 6] = (uint8_t) (1 + (x >> 9) % 3);
		cfg->futex_faults = c->faults; cfg->nfutex_faults = 8;
	}
	hooks.setup = f->setup;
	hooks.at_quiescence = f->at_quiescence;
	hooks.finish = f->finish;
	hooks.arg = c;
	hooks.on_free = (c->family == FAM_NOTEFREE) ? &nf_on_free : NULL;
	c->res = res;
	if (c->family == FAM_ALLOC) {
		/* fail every allocation made from the constructors' own call sites in turn (exhaustive per script) */
		int k, total, nontriv = 0;
		cfg->alloc_fail_k = 0;
		cfg->alloc_fail_file = "note.c|counter.c";
		cfg->freeze_at = -1;
		rt_execute (cfg, &hooks, &res->v, &res->st);
		total = (int) res->st.allocs_matching;
		res->sub_evaluations = 1;
		for (k = 1; k <= total && res->v.kind == RT_V_NONE; k++) {
			cfg->alloc_fail_k = k;
			rt_execute (cfg, &hooks, &res->v, &res->st);
			G = c;
			res->sub_evaluations++;
			if (al_nontrivial (c, &res->st)) nontriv++;
			if (c->dump != NULL && res->v.kind != RT_V_NONE) D ("failing allocation %d of %d from note.c/counter.c:\n", k, total);
		}
		res->sub_nontrivial = nontriv;
	} else if (c->family == FAM_SEM && c->sem_enumerate) {
		/* fault_enumeration: for this (program, schedule) every placement of up to 2 injected faults over the
		   first 6 futex waits x {EINTR, EAGAIN, premature ETIMEDOUT} is executed (1 + 18 + 135 = 154 runs) */
		int i, j, ki, kj, nontriv = 0;
		memset (c->faults, 0, sizeof (c->faults));
		rt_execute (cfg, &hooks, &res->v, &res->st);
		res->sub_evaluations = 1;
		for (i = 0; i < 6 && res->v.kind == RT_V_NONE; i++) for (ki = 1; ki <= 3 && res->v.kind == RT_V_NONE; ki++) {
			memset (c->faults, 0, sizeof (c->faults)); c->faults[i] = (uint8_t) ki;
			rt_execute (cfg, &hooks, &res->v, &res->st); G = c;
			res->sub_evaluations++;
			if (res->st.faults_injected > 0) nontriv++;
			for (j = i + 1; j < 6 && res->v.kind == RT_V_NONE; j++) for (kj = 1; kj <= 3 && res->v.kind == RT_V_NONE; kj++) {
				memset (c->faults, 0, sizeof (c->faults)); c->faults[i] = (uint8_t) ki; c->faults[j] = (uint8_t) kj;
				rt_execute (cfg, &hooks, &res->v, &res->st); G = c;
				res->sub_evaluations++;
				if (res->st.faults_injected > 1) nontriv++;
			}
		}
		res->sub_nontrivial = nontriv;
		if (c->dump != NULL && res->v.kind != RT_V_NONE) D ("enumerated fault placement: %d %d %d %d %d %d (1 EINTR, 2 EAGAIN, 3 early ETIMEDOUT)\n", c->faults[0], c->faults[1], c->faults[2], c->faults[3], c->faults[4], c->faults[5]);
	} else {
		rt_execute (cfg, &hooks, &res->v, &res->st);
	}
	G = c;   /* statics were restored at the top of rt_execute and set again by setup; keep for classification */
	res->family = c->family;
	res->owned = verdict_owned (c, &res->v);
	res->nontrivial = (f->nontrivial != NULL) ? f->nontrivial (c, &res->st) : 0;
	if (c->family == FAM_ALLOC) res->nontrivial = (res->sub_nontrivial > 0);
	fam_fill_result (c, res);
	if (c->dump != NULL) {
		D ("verdict: kind=%d sig=%s owned=%d\n  %s\n", res->v.kind, res->v.sig, res->owned, res->v.msg);
		D ("stats: steps=%lu atomics=%lu plains=%lu switches=%lu sem_blocks=%lu timeouts=%lu cas_fail=%lu yields=%lu clock_moves=%lu frozen=%lu nontrivial=%d excluded=%d\n",
		   (unsigned long) res->st.steps, (unsigned long) res->st.atomics, (unsigned long) res->st.plains,
		   (unsigned long) res->st.switches, (unsigned long) res->st.sem_blocks, (unsigned long) res->st.sem_timeouts,
		   (unsigned long) res->st.cas_fail, (unsigned long) res->st.yields, (unsigned long) res->st.clock_moves,
		   (unsigned long) res->st.frozen, res->nontrivial, res->excluded);
	}
}

#if defined(__cplusplus)
extern "C" {
#endif
void interp_run (const uint8_t *tape, size_t n, int prop, int family_override, interp_result *res, char *dump, size_t dumpsz) {
	run_ctx c;
	rt_config cfg;
	tape_t t;
	memset (&c, 0, sizeof (c));
	c.tape = tape; c.n = n; c.prop = prop; c.dump = dump; c.dumpsz = dumpsz;
	if (dump != NULL && dumpsz > 0) dump[0] = 0;
	t.p = tape; t.n = n; t.pos = 0;
	decode_config (&t, &c, &cfg, family_override);
	G = &c;
	D ("family=%s strategy=%d seed=%lu sem=%d freeze_at=%d clock_weight=%d\n", families[c.family].name, cfg.strategy,
	   (unsigned long) cfg.seed, cfg.sem_flavour, cfg.freeze_at, cfg.clock_weight);
	run_common (&c, &cfg, res);
}

void interp_replay (const uint8_t *tape, size_t n, int prop, int family_override, const uint8_t *trace, size_t ntrace, interp_result *res) {
	run_ctx c;
	rt_config cfg;
	tape_t t;
	memset (&c, 0, sizeof (c));
	c.tape = tape; c.n = n; c.prop = prop;
	t.p = tape; t.n = n; t.pos = 0;
	decode_config (&t, &c, &cfg, family_override);
	cfg.strategy = RT_S_REPLAY;
	cfg.bytes = trace; cfg.nbytes = ntrace;
	G = &c;
	run_common (&c, &cfg, res);
}
#if defined(__cplusplus)
}
#endif
