/* Harness-side peeks into nsync's private structures, compiled WITHOUT instrumentation and with nsync's
   internal headers, so that the scenario interpreter (public headers only) does not depend on the layout.
   Used only to tag verdicts (which listed finding a freed access belongs to), never as an oracle.  */
#include "nsync_cpp.h"
#include "platform.h"
#include "compiler.h"
#include "cputype.h"
#include "nsync.h"
#include "dll.h"
#include "sem.h"
#include "wait_internal.h"
#include "common.h"
#include "atomic.h"

NSYNC_CPP_USING_

/* Whether *n is still linked into a note tree: it has a parent pointer or a non-empty child list.  */
NSYNC_C_START_
int sim_peek_note_linked (void *note) {
	struct nsync_note_s_ *n = (struct nsync_note_s_ *) note;
	return (n->parent != NULL || n->children != NULL);
}
/* Whether *n has a child in its list that no thread is disconnecting: after nsync_note_free (n) has scanned its
   children this is an orphan that was adopted too late (the listed "adoption into a dying parent" finding).  */
int sim_peek_note_has_idle_child (void *note) {
	struct nsync_note_s_ *n = (struct nsync_note_s_ *) note;
	nsync_dll_element_ *p;
	int guard = 0;
	for (p = nsync_dll_first_ (n->children); p != NULL && guard++ < 64; p = nsync_dll_next_ (n->children, p)) {
		struct nsync_note_s_ *c = (struct nsync_note_s_ *) p->container;
		if (c->disconnecting == 0) {
			return (1);
		}
	}
	return (0);
}
NSYNC_C_END_
