/* Harness-side peeks into nsync's private structures, compiled WITHOUT instrumentation and with nsync's
   internal headers, so that the scenario interpreter (public headers only) does not depend on the layout.
   Used only to tag verdicts (which listed finding a freed access belongs to), never as an oracle.  */
#include "nsync_cpp.h"
#include "platform.h"
#include "compiler.h"
#include "cputype.h"
#include "nsync.h"
#include "dll.h"
#include "sem.h"
#include "wait_internal.h"
#include "common.h"
#include "atomic.h"

NSYNC_CPP_USING_

/* Whether *n is still linked into a note tree: it has a parent pointer or a non-empty child list.  */
NSYNC_C_START_
int sim_peek_note_linked (void *note) {
	struct nsync_note_s_ *n = (struct nsync_note_s_ *) note;
	return (n->parent != NULL || n->children != NULL);
}
NSYNC_C_END_
