/* Shim between nsync and the deterministic runtime: the platform-specific
   functions nsync expects (yield, per-thread waiter, panic) and a dispatcher
   that selects the semaphore flavour per case at run time.
   Compiled as C or C++ together with the nsync sources.  */
#include "headers.h"
#include "nsync_time_init.h"

NSYNC_CPP_START_

void nsync_yield_ (void) {
	rt_yield ();
}

/* nsync_per_thread_waiter_ / nsync_set_per_thread_waiter_ are the REAL platform/posix/src/per_thread_waiter.c,
   compiled with pthread_key_create / pthread_getspecific / pthread_setspecific / sched_yield renamed to the four
   functions below (build_sim.sh), so that its once-only key creation runs under the scheduler like everything else.
   One key exists; using a key that was never created is reported (the real call would fail with EINVAL or hit
   somebody else's key and the waiter would be lost).  */
NSYNC_CPP_END_
NSYNC_C_START_
#define SIM_KEY_MAGIC 0x5157u
static void (*sim_key_dest) (void *);
static int sim_key_created;
int sim_pthread_key_create (pthread_key_t *key, void (*dest) (void *)) {
	if (sim_key_created) rt_panic ("pthread_key_create called twice: the per-thread waiter key must be created exactly once");
	sim_key_created = 1;
	sim_key_dest = dest;
	*key = (pthread_key_t) SIM_KEY_MAGIC;
	return (0);
}
void *sim_pthread_getspecific (pthread_key_t key) {
	if (!sim_key_created || key != (pthread_key_t) SIM_KEY_MAGIC) rt_panic ("pthread_getspecific on a key that has not been created");
	return (rt_get_waiter ());
}
int sim_pthread_setspecific (pthread_key_t key, const void *v) {
	if (!sim_key_created || key != (pthread_key_t) SIM_KEY_MAGIC) rt_panic ("pthread_setspecific on a key that has not been created");
	rt_set_waiter ((void *) v, sim_key_dest);
	return (0);
}
int sim_sched_yield (void) {
	rt_yield ();
	return (0);
}
NSYNC_C_END_
NSYNC_CPP_START_

void nsync_panic_ (const char *s) {
	rt_panic (s);
}

/* The real platform/linux/src/nsync_semaphore_futex.c, compiled with its four
   entry points renamed (-Dnsync_mu_semaphore_p=nsync_mu_semaphore_p_futex ...). */
void nsync_mu_semaphore_init_futex (nsync_semaphore *s);
void nsync_mu_semaphore_p_futex (nsync_semaphore *s);
int nsync_mu_semaphore_p_with_deadline_futex (nsync_semaphore *s, nsync_time abs_deadline);
void nsync_mu_semaphore_v_futex (nsync_semaphore *s);

void nsync_mu_semaphore_init (nsync_semaphore *s) {
	rt_sem_enter ();
	if (rt_sem_flavour () == RT_SEM_FUTEX) {
		nsync_mu_semaphore_init_futex (s);
	} else {
		rt_nsem_init (s);
	}
	rt_sem_exit ();
}

void nsync_mu_semaphore_p (nsync_semaphore *s) {
	rt_sem_enter ();
	if (rt_sem_flavour () == RT_SEM_FUTEX) {
		nsync_mu_semaphore_p_futex (s);
	} else {
		rt_nsem_p (s);
	}
	rt_sem_exit ();
}

int nsync_mu_semaphore_p_with_deadline (nsync_semaphore *s, nsync_time abs_deadline) {
	int r;
	rt_sem_enter ();
	if (rt_sem_flavour () == RT_SEM_FUTEX) {
		r = nsync_mu_semaphore_p_with_deadline_futex (s, abs_deadline);
	} else {
		r = rt_nsem_p_deadline (s, (int64_t) NSYNC_TIME_SEC (abs_deadline),
					(int64_t) NSYNC_TIME_NSEC (abs_deadline),
					nsync_time_cmp (abs_deadline, nsync_time_no_deadline) == 0);
	}
	rt_sem_exit ();
	return (r);
}

void nsync_mu_semaphore_v (nsync_semaphore *s) {
	rt_sem_enter ();
	if (rt_sem_flavour () == RT_SEM_FUTEX) {
		nsync_mu_semaphore_v_futex (s);
	} else {
		rt_nsem_v (s);
	}
	rt_sem_exit ();
}

NSYNC_CPP_END_
