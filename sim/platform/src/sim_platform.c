/* Shim between nsync and the deterministic runtime: the platform-specific
   functions nsync expects (yield, per-thread waiter, panic) and a dispatcher
   that selects the semaphore flavour per case at run time.
   Compiled as C or C++ together with the nsync sources.  */
#include "headers.h"
#include "nsync_time_init.h"

NSYNC_CPP_START_

void nsync_yield_ (void) {
	rt_yield ();
}

void *nsync_per_thread_waiter_ (void (*dest) (void *)) {
	(void) dest;
	return (rt_get_waiter ());
}

void nsync_set_per_thread_waiter_ (void *v, void (*dest) (void *)) {
	rt_set_waiter (v, dest);
}

void nsync_panic_ (const char *s) {
	rt_panic (s);
}

/* The real platform/linux/src/nsync_semaphore_futex.c, compiled with its four
   entry points renamed (-Dnsync_mu_semaphore_p=nsync_mu_semaphore_p_futex ...). */
void nsync_mu_semaphore_init_futex (nsync_semaphore *s);
void nsync_mu_semaphore_p_futex (nsync_semaphore *s);
int nsync_mu_semaphore_p_with_deadline_futex (nsync_semaphore *s, nsync_time abs_deadline);
void nsync_mu_semaphore_v_futex (nsync_semaphore *s);

void nsync_mu_semaphore_init (nsync_semaphore *s) {
	rt_sem_enter ();
	if (rt_sem_flavour () == RT_SEM_FUTEX) {
		nsync_mu_semaphore_init_futex (s);
	} else {
		rt_nsem_init (s);
	}
	rt_sem_exit ();
}

void nsync_mu_semaphore_p (nsync_semaphore *s) {
	rt_sem_enter ();
	if (rt_sem_flavour () == RT_SEM_FUTEX) {
		nsync_mu_semaphore_p_futex (s);
	} else {
		rt_nsem_p (s);
	}
	rt_sem_exit ();
}

int nsync_mu_semaphore_p_with_deadline (nsync_semaphore *s, nsync_time abs_deadline) {
	int r;
	rt_sem_enter ();
	if (rt_sem_flavour () == RT_SEM_FUTEX) {
		r = nsync_mu_semaphore_p_with_deadline_futex (s, abs_deadline);
	} else {
		r = rt_nsem_p_deadline (s, (int64_t) NSYNC_TIME_SEC (abs_deadline),
					(int64_t) NSYNC_TIME_NSEC (abs_deadline),
					nsync_time_cmp (abs_deadline, nsync_time_no_deadline) == 0);
	}
	rt_sem_exit ();
	return (r);
}

void nsync_mu_semaphore_v (nsync_semaphore *s) {
	rt_sem_enter ();
	if (rt_sem_flavour () == RT_SEM_FUTEX) {
		nsync_mu_semaphore_v_futex (s);
	} else {
		rt_nsem_v (s);
	}
	rt_sem_exit ();
}

NSYNC_CPP_END_
