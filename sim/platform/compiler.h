/* Simulated platform: no thread-local storage (the officially supported
   platform/gcc_no_tls configuration), because all simulated threads are fibers
   of one OS thread; the per-thread waiter comes from the runtime. */
#ifndef VERIF_SIM_COMPILER_H_
#define VERIF_SIM_COMPILER_H_
#define INLINE __inline
#define UNUSED __attribute__((unused))
#define THREAD_LOCAL
#define HAVE_THREAD_LOCAL 0
#endif
