/* Simulated platform: thread-local storage as in the default gcc/clang builds (THREAD_LOCAL variables exist and
   HAVE_THREAD_LOCAL is 1).  All simulated threads are fibers of one OS thread, so a THREAD_LOCAL variable is
   placed in a section of its own ("sim_tls") whose contents the runtime saves and restores at every fiber
   switch: each simulated thread sees its own zero-initialised copy.  */
#ifndef VERIF_SIM_COMPILER_H_
#define VERIF_SIM_COMPILER_H_
#define INLINE __inline
#define UNUSED __attribute__((unused))
#define THREAD_LOCAL __attribute__((section("sim_tls")))
#define HAVE_THREAD_LOCAL 1
#endif
