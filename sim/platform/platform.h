/* Simulated platform layer for nsync (see /verif/DESIGN.md section 3.1).
   nsync sources include "platform.h" by bare name; with /verif/sim/platform
   first on the include path they get this file, which pulls in the real Linux
   platform header and then redirects the handful of libc / kernel entry points
   nsync uses to the deterministic runtime (simrt). */
#ifndef VERIF_SIM_PLATFORM_H_
#define VERIF_SIM_PLATFORM_H_

#if defined(__cplusplus)
/* Standard headers that must be seen before malloc/free/memset become macros. */
#include <cstdlib>
#include <cstring>
#include <atomic>
#include <chrono>
#include <new>
#endif

#include "linux/platform.h"   /* the real one: /repo/platform/linux/platform.h */

#include "simrt_c.h"

#undef malloc
#undef free
#undef memset
#undef clock_gettime
#undef syscall
#define malloc(n_) sim_malloc ((n_), __FILE__, __LINE__)
#define free(p_) sim_free ((p_))
#define memset(p_, c_, n_) sim_memset ((p_), (c_), (n_))
#define clock_gettime(c_, ts_) sim_clock_gettime ((int) (c_), (ts_))
#define syscall sim_syscall

#if defined(__cplusplus)
/* The C++ build reads the time through std::chrono::system_clock::now() (platform/c++11/src/time_rep_timespec.cc),
   which would be the host's wall clock: give it the simulated clock.  The replacement keeps system_clock's
   time_point type, so every conversion in the library is unchanged; only now() differs.  (All standard headers
   that mention system_clock are included above, before the name becomes a macro.)  */
#include <condition_variable>
#include <mutex>
#include <thread>
namespace std { namespace chrono {
struct sim_system_clock {
	typedef system_clock::duration duration;
	typedef system_clock::rep rep;
	typedef system_clock::period period;
	typedef system_clock::time_point time_point;
	static time_point now () {
		struct timespec ts;
		sim_clock_gettime (0, &ts);
		return (time_point (duration_cast<duration> (nanoseconds ((long long) ts.tv_sec * 1000000000LL + ts.tv_nsec))));
	}
};
} }
#define system_clock sim_system_clock
#endif

/* platform/posix/src/per_thread_waiter.c is compiled into the simulation unchanged; its thread-specific-data
   calls and its yield go to the runtime (definitions in src/sim_platform.c) */
#if defined(__cplusplus)
extern "C" {
#endif
int sim_pthread_key_create (pthread_key_t *key, void (*dest) (void *));
void *sim_pthread_getspecific (pthread_key_t key);
int sim_pthread_setspecific (pthread_key_t key, const void *v);
int sim_sched_yield (void);
#if defined(__cplusplus)
}
#endif
#define pthread_key_create sim_pthread_key_create
#define pthread_getspecific sim_pthread_getspecific
#define pthread_setspecific sim_pthread_setspecific
#define sched_yield sim_sched_yield

#endif /*VERIF_SIM_PLATFORM_H_*/
