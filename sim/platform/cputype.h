/* Simulated platform: nothing is credited to the CPU. */
#ifndef VERIF_SIM_CPUTYPE_H_
#define VERIF_SIM_CPUTYPE_H_
#define ATM_LD_IS_ACQ_ST_IS_REL_ 0
#endif
