/* Simulated platform: use the REAL atomic.h of the flavour under test (not a
   copy), so that a change to it is seen by the checks.  clang's own default
   (platform/clang/atomic.h) would select gcc_old = full barriers. */
#ifndef VERIF_SIM_ATOMIC_H_
#define VERIF_SIM_ATOMIC_H_
#if NSYNC_ATOMIC_CPP11
#include "c++11/atomic.h"
#elif NSYNC_ATOMIC_C11
#include "c11/atomic.h"
#else
#include "gcc_new/atomic.h"
#endif
#endif
