#!/bin/bash
# Sensitivity matrix: every stored seeded change against the quick check of the property it targets.
# usage: seed_matrix.sh [name-prefix...]   (run from a /verif checkout; with `vp run --with-repo` it works on the run's own repository snapshot)
cd "$(dirname "$0")/.."
if [ -n "$VP_RUN_REPO" ]; then export VERIF_REPO=$VP_RUN_REPO; fi
REPO=${VERIF_REPO:-/repo}
python3 tools/check.py --setup >/dev/null
git -C $REPO diff --quiet || { echo "$REPO has uncommitted changes; refusing"; exit 2; }
for d in seeded/*/; do
  n=$(basename $d)
  if [ $# -gt 0 ]; then ok=0; for p in "$@"; do case $n in $p*) ok=1;; esac; done; [ $ok = 1 ] || continue; fi
  prop=$(python3 -c "import json;print(json.load(open('$d/meta.json'))['property'])")
  if ! git -C $REPO apply --check $PWD/$d/patch.diff 2>/dev/null; then
    if git -C $REPO apply --3way $PWD/$d/patch.diff >/dev/null 2>&1 && ! grep -rq '^<<<<<<<' $(git -C $REPO diff --name-only | sed "s|^|$REPO/|"); then :; else
      git -C $REPO checkout -q -- . ; git -C $REPO reset -q --hard; echo "MATRIX $n $prop DOES-NOT-APPLY"; continue; fi
  else git -C $REPO apply $PWD/$d/patch.diff; fi
  t0=$(date +%s)
  out=$(timeout 1800 python3 tools/check.py $prop 2>&1); rc=$?
  t1=$(date +%s)
  git -C $REPO reset -q --hard; git -C $REPO checkout -q -- .
  first=$(echo "$out" | grep -m1 "violation" | cut -c1-150)
  case $rc in 1) st=CAUGHT;; 0) st=MISSED;; *) st="BROKEN(rc=$rc)";; esac
  echo "MATRIX $n $prop $st $((t1-t0))s $first"
done
echo MATRIX-DONE
