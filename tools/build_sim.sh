#!/bin/bash
# Build the simulated nsync (+ shim + scenario interpreter) as one shared object
# from /repo's CURRENT working tree.  usage: build_sim.sh <flavour> <outdir>
#   flavour: gcc_new (C, default build) | c11 (C, -DNSYNC_ATOMIC_C11) | cpp11 (sources compiled as C++)
set -e
FL=${1:-gcc_new}; OUT=${2:-work/sim_$FL}
REPO=${VERIF_REPO:-/repo}
V=${VERIF_ROOT:-$(cd "$(dirname "$0")/.." && pwd)}
mkdir -p "$OUT"
INC="-I$V/sim/platform -I$V/sim/rt -I$V/sim/interp -I$REPO/platform -I$REPO/platform/posix -I$REPO/public -I$REPO/internal"
COMMON="-O1 -g -fPIC -fno-omit-frame-pointer -DGOOGLE_NSYNC_VERIF -Wno-unused-command-line-argument"
# SIM_FUZZ=1: also instrument nsync for libFuzzer coverage feedback (the interpreter stays uninstrumented)
# (the inline coverage counters get tsan-instrumented too; simrt ignores accesses to the __sancov_cntrs section)
TS="-fsanitize=thread"; [ -n "$SIM_FUZZ" ] && TS="-fsanitize=thread,fuzzer-no-link"
case "$FL" in
  gcc_new) CC="clang"; LANGF=""; DEFS="";;
  c11)     CC="clang"; LANGF="-std=gnu11"; DEFS="-DNSYNC_ATOMIC_C11";;
  cpp11)   CC="clang++"; LANGF="-x c++ -std=gnu++11"; DEFS="-DNSYNC_ATOMIC_CPP11 -DNSYNC_USE_CPP11_TIMEPOINT";;
  *) echo "unknown flavour $FL"; exit 2;;
esac
SEMREN="-Dnsync_mu_semaphore_init=nsync_mu_semaphore_init_futex -Dnsync_mu_semaphore_p=nsync_mu_semaphore_p_futex -Dnsync_mu_semaphore_p_with_deadline=nsync_mu_semaphore_p_with_deadline_futex -Dnsync_mu_semaphore_v=nsync_mu_semaphore_v_futex"
SRCS="common counter cv debug dll mu mu_wait note once sem_wait time_internal wait"
pids=()
for s in $SRCS; do
  $CC $LANGF $COMMON $TS $DEFS $INC -c $REPO/internal/$s.c -o $OUT/$s.o & pids+=($!)
done
if [ "$FL" = cpp11 ]; then
  $CC $LANGF $COMMON $TS $DEFS $INC -c $REPO/platform/c++11/src/time_rep_timespec.cc -o $OUT/time_rep.o & pids+=($!)
else
  $CC $LANGF $COMMON $TS $DEFS $INC -c $REPO/platform/posix/src/time_rep.c -o $OUT/time_rep.o & pids+=($!)
fi
$CC $LANGF $COMMON $TS $DEFS $INC $SEMREN -c $REPO/platform/linux/src/nsync_semaphore_futex.c -o $OUT/sem_futex.o & pids+=($!)
# the real per-thread-waiter file; its pthread_key_* / sched_yield calls are redirected in sim/platform/platform.h
$CC $LANGF $COMMON $TS $DEFS $INC -c $REPO/platform/posix/src/per_thread_waiter.c -o $OUT/per_thread_waiter.o & pids+=($!)
$CC $LANGF $COMMON $TS $DEFS $INC -c $V/sim/platform/src/sim_platform.c -o $OUT/sim_platform.o & pids+=($!)
$CC $LANGF $COMMON $DEFS $INC -c $V/sim/platform/src/sim_peek.c -o $OUT/sim_peek.o & pids+=($!)
# the interpreter: NOT tsan-instrumented
$CC $LANGF $COMMON $DEFS $INC -Wall -Wno-unused-function -Werror=implicit-function-declaration -c $V/sim/interp/interp.c -o $OUT/interp.o & pids+=($!)
rc=0
for p in "${pids[@]}"; do wait $p || rc=1; done
[ $rc = 0 ] || { echo "build_sim: compile failed"; exit 2; }
$CC -shared -o $OUT/libnsyncsim_$FL.so $OUT/*.o -Wl,-z,norelro -Wl,-z,now
echo "$OUT/libnsyncsim_$FL.so"
