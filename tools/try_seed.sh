#!/bin/bash
# usage: try_seed.sh <patch.diff> <property id>...   -- applies a seeded change to /repo, runs the quick checks, reverts.
P=$1; shift
git -C /repo diff --quiet || { echo "/repo has uncommitted changes"; exit 2; }
git -C /repo apply "$P" || exit 2
for id in "$@"; do
  s=$(date +%s)
  out=$(timeout 1800 python3 /verif/tools/check.py $id --tier quick 2>&1)
  rc=$?
  e=$(( $(date +%s) - s ))
  echo "[$id] rc=$rc ${e}s: $(echo "$out" | grep -E 'violation|OK property' | head -2 | cut -c1-260)"
done
git -C /repo checkout -- .
