#!/bin/bash
# usage: confirm_seed.sh <id> [name]  -- independently confirm a seeded change produced by a sub-agent in /tmp/seed/wt_<id>:
#  patch applies to a pristine checkout, library builds, the 26 tests pass with it, demo fails with it and passes without it.
# Writes /verif/seeded/<name>/{patch.diff,demo*,notes.md,RUN.txt,meta.json}; removes nothing (caller removes the worktree).
id=$1; name=${2:-$id}
WT=/tmp/seed/${SEED_WT:-wt_}$id; OUT=/tmp/seed/${SEED_OUT:-out_}$id; DST=/verif/seeded/$name
mkdir -p $DST
cd $WT || exit 2
git checkout -q -- . 2>/dev/null
git apply $OUT/patch.diff || { echo "patch does not apply"; exit 2; }
cmake -G Ninja -S . -B _build >/dev/null && cmake --build _build > /tmp/seed/build_$id.log 2>&1 || { echo "build failed"; exit 2; }
warn=$(grep -c "warning:" /tmp/seed/build_$id.log)
ctest --test-dir _build -j8 --timeout 900 > /tmp/seed/ctest_$id.log 2>&1; trc=$?
tests=$(grep -E "tests passed|tests failed" /tmp/seed/ctest_$id.log | tail -1)
runcmd=$(head -1 $OUT/RUN.txt | sed 's/#.*//')
( eval "timeout 300 bash -c '$runcmd'" ) > /tmp/seed/demo_with_$id.log 2>&1; with_rc=$?
git checkout -q -- .
cmake --build _build > /dev/null 2>&1
( eval "timeout 300 bash -c '$runcmd'" ) > /tmp/seed/demo_without_$id.log 2>&1; without_rc=$?
git apply $OUT/patch.diff
cp $OUT/patch.diff $OUT/notes.md $OUT/RUN.txt $DST/ 2>/dev/null
cp $OUT/demo*.c $DST/ 2>/dev/null
echo "seed $id: build_warnings=$warn ctest_rc=$trc [$tests] demo_with_patch_rc=$with_rc demo_without_patch_rc=$without_rc"
python3 - "$id" "$name" "$warn" "$trc" "$tests" "$with_rc" "$without_rc" <<'PY'
import json, sys, os
id, name, warn, trc, tests, w, wo = sys.argv[1:8]
meta = dict(property=id, name=name,
            needs=open(os.environ.get("SEED_NOTES", f"/tmp/seed/out_{id}/notes.md")).read()[:1500],
            confirmed=dict(applies_to='8b87c87 (pinned commit) and current /repo HEAD', build_warnings=int(warn), ctest_rc=int(trc), ctest_summary=tests,
                           demo_with_patch_rc=int(w), demo_without_patch_rc=int(wo),
                           how='tools/confirm_seed.sh: apply patch in scratch worktree, cmake build, ctest -j8, build+run demo; revert, rebuild, run demo again'),
            detected_by=[])
json.dump(meta, open(f'/verif/seeded/{name}/meta.json', 'w'), indent=1)
PY
