#!/bin/bash
# Specificity sweep: every quick check over several VERIF_SEED values on the unchanged tree; any non-zero exit is logged.
# usage: seed_sweep.sh <first seed> <last seed> [ids...]     (run from a /verif checkout; uses its own work/ and evidence/)
cd "$(dirname "$0")/.."
# a background run gets its own snapshot of the repository (vp run --with-repo), so that edits to /repo do not disturb it
if [ -n "$VP_RUN_REPO" ]; then export VERIF_REPO=$VP_RUN_REPO; fi
a=$1; b=$2; shift 2
ids=${@:-C01 C02 C03 C04 C05 C06 C07 C08 C09 C10 C11 C12 C13 C14 C15 C16 C17 C18 C19}
python3 tools/check.py --setup
for seed in $(seq $a $b); do
  for id in $ids; do
    out=$(VERIF_SEED=$seed nice -n 15 python3 tools/check.py $id --tier ${TIER:-quick} 2>&1); rc=$?
    if [ $rc -ne 0 ]; then echo "SEED $seed $id rc=$rc"; echo "$out" | grep -E "violation|VIOLATION|check.py" | head -5; else echo "seed $seed $id ok: $(echo "$out" | grep '^OK' | cut -c1-100)"; fi
  done
done
echo SWEEP-DONE
