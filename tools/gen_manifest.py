#!/usr/bin/env python3
"""Regenerates /verif/MANIFEST.json from the property table below (kept next to check.py's PROPS)."""
import json, sys
sys.path.insert(0, '/verif/tools')
import check

LEVEL_TEXT = {
 'C01': ('exploration', 'Generated MON/LOCK programs on the deterministic simulator: every acquisition path (lock, rlock, try*, cv / mu / wait_n re-acquisition, deadline and cancel races) is checked against a harness shadow of who holds the mutex and against the AnnotateRWLock* observation points inside the library. Exploration of sampled schedules, not a proof.', '6.1'),
 'C02': ('exploration', 'Exact deadlock / livelock verdicts of the simulator on generated LOCK and MON programs (incl. FREEZE schedules that take away every rescuer): a thread asleep in lock/rlock while the mutex is free is a violation; try-locks may not reach a blocking primitive.', '6.2'),
 'C03': ('exploration', 'Vector-clock happens-before race detector over client data and every non-atomic nsync field, crediting only the memory order each atomic call site declares (all three atomic.h flavours), on generated programs of the MON, LOCK, ONCE, NOTE, CTR and WAITN families.', '6.3'),
 'C04': ('exploration', 'Mark/snapshot accounting of which waiters a wake-up definitely covers, evaluated at quiescence on generated monitor programs with deadlines and cancellations racing the wake-up (2 of 16 quick shards on the C++ build, deadlines through the time_point overloads).', '6.4'),
 'C05': ('exploration', 'Assertions on every return of a timed / cancellable wait (mode, clock, note model, condition value) plus exact detection of a wait that keeps sleeping after its deadline or cancellation.', '6.5'),
 'C06': ('exploration', 'At quiescence no nsync_mu_wait caller may sleep with a true condition; inside every condition callback no other thread may be inside a write critical section. One generated program in four is built around the MU_ALL_FALSE hint (a writer that makes a condition true and then blocks, or unlocks while a debug-state caller toggles the spinlock, followed by a reader / unlock_without_wakeup release).', '6.6'),
 'C07': ('exploration', 'Generated ONCE programs (4 variants, onces sharing an internal lock, nested calls, scheduling points inside the function): run count, completion flag after every return, no blocking after done.', '6.7'),
 'C08': ('exploration', 'Generated note trees with deadlines; every observation is checked against a model of causes over the recorded history, the tree state at every quiescence and at the end, expiry against the chain minimum.', '6.8'),
 'C09': ('exploration', 'Generated notify / poll / wait / new-child / free programs on a parent-child-grandchild family with a harness gate for the free precondition; exact deadlock verdicts, freed-memory tracking, final adoption check. Two open known findings (the disconnecting protocol) are excluded by history pattern and counted.', '6.9'),
 'C10': ('exploration', 'Generated counter programs; returned values checked for linearizability against an integer (arithmetic programs with concurrent add(+1)/add(-1)/add(0)/value: exhaustive search over the orders that respect real time), wait results against the value history, release of every waiter at zero.', '6.10'),
 'C11': ('exploration', 'Generated nsync_wait_n calls over notes, counters, cvs and a logging probe waitable (stack and heap bookkeeping), with actors making objects ready at any point; result index vs. object state and clock, lock protocol log, leftover registrations; also monitor programs with nsync_wait_n on a cv and note-tree programs.', '6.11'),
 'C12': ('fault_enumeration', 'The real nsync_semaphore_futex.c on a modelled futex with a generated vector of injected EINTR / EAGAIN / early-ETIMEDOUT / spurious-0 returns and generated schedules at the granularity of its atomics and futex calls; token accounting.', '6.12'),
 'C13': ('exploration', 'Arena and fiber-stack lifetime tracking: any access to a freed block or to a dead part of another thread\'s stack by nsync code is a violation; reference-count programs, and wakers racing nsync_wait_n / cancellable waits / nsync_counter_wait / nsync_note_wait (REF, WAITN, MON, CTR and NOTE programs).', '6.13'),
 'C14': ('exploration', 'Adversarial scheduling policy (victim runs only while a barger holds the mutex) with generated perturbations, plus random / PCT schedules; the number of times the victim goes back to sleep in one lock call is bounded by 31+2T+2.', '6.14'),
 'C15': ('exploration', 'Real libnsync.a / libnsync_cpp.a rebuilt by cmake from the working tree; exhaustive boundary grid of deadlines x 9 timed entry points x 2 libraries (C++ build also through the time_point overloads) plus rapidcheck random deadlines, one child process per case with a watchdog.', '6.15'),
 'C16': ('exploration', 'C01/C02/C04 oracles with debug-state callers added to generated LOCK/MON programs; and for frozen mutex/cv states with 0..3 queued waiters every buffer size 0..80 (exhaustive) with canaries and the output(n) vs output(1024) relation.', '6.16'),
 'C17': ('exploration', 'Exhaustive enumeration of the reachable model-state graph (5 elements, 2 lists) executing every legal operation on the real dll.c against an array model; rapidcheck sequences and a libFuzzer target over 8 elements / 3 lists; ASan+UBSan.', '6.17'),
 'C18': ('exploration', 'Exhaustive boundary grid and rapidcheck / libFuzzer generated normalized pairs against 128-bit integer arithmetic, for the C file and the C++ file linked into one binary; UBSan.', '6.18'),
 'C19': ('fault_enumeration', 'For every generated script of constructor calls, every allocation made from note.c / counter.c call sites is failed in turn (exhaustive per script) on the simulated allocator; NULL result, unchanged and usable existing objects.', '6.19'),
}
NATIVE_NOTE = 'trusted base: the reference model / 128-bit oracle / child-process judge in native/, clang sanitizers, rapidcheck and libFuzzer; C15 depends on the host clock (watchdog hits are re-run, only 3/3 hangs count)'
NATIVE_TECH = {'C15': 'property-based testing (exhaustive boundary grid + rapidcheck-generated deadlines against the real libraries, one child process per case; plus the same deadline domain on the simulator with a modelled kernel futex)', 'C17': 'model-based property testing (exhaustive state-graph enumeration + rapidcheck sequences + libFuzzer, array reference model, ASan/UBSan)', 'C18': 'property-based testing and fuzzing (exhaustive boundary grid + rapidcheck + libFuzzer against a 128-bit integer oracle, UBSan)'}
TECH = 'property-based testing and coverage-guided fuzzing (rapidcheck- and libFuzzer-generated tapes = program + schedule + clock + faults, run on a deterministic simulator of the nsync platform layer against an explicit oracle; failures shrink to a replay tape)'

def main():
    props = [json.loads(l) for l in open('/verif/properties.jsonl')]
    checks = []
    na = []
    for p in props:
        pid = p['id']
        if (pid in check.PROPS or pid in check.NATIVE) and pid in LEVEL_TEXT:
            cat, text, ref = LEVEL_TEXT[pid]
            checks.append(dict(property_id=pid,
                               quick_cmd=f'python3 tools/check.py {pid} --tier quick',
                               thorough_cmd=f'python3 tools/check.py {pid} --tier thorough',
                               evidence_file=f'/verif/evidence/{pid}.json',
                               replay_cmd_template=f'python3 tools/check.py {pid} --replay {{path}}',
                               engine=('native' if pid in check.NATIVE else 'simrt'),
                               level_claimed=dict(category=cat, text=text, design_ref='DESIGN.md section ' + ref),
                               level_note=(NATIVE_NOTE if pid in check.NATIVE else check.PROPS[pid].get('level_note', None)) or ('trusted base: the simulated platform layer (sim/platform, sim/rt), the scenario interpreter and its oracles; clang -fsanitize=thread instrumentation delivering every atomic with its declared order; bounded programs and sampled schedules'),
                               technique=(NATIVE_TECH[pid] if pid in check.NATIVE else TECH)))
        else:
            na.append(dict(property_id=pid, reason='check not built yet in this round (planned, see DESIGN.md section 6); nothing is claimed for it'))
    m = dict(version=1,
             setup_cmd='python3 tools/check.py --setup',
             hooks=dict(guard='GOOGLE_NSYNC_VERIF',
                        enable='no source hooks exist in /repo: the checks compile /repo\'s sources against /verif/sim/platform with -DGOOGLE_NSYNC_VERIF -fsanitize=thread and link their own runtime',
                        baseline_off_cmd='cd /repo && cmake -G Ninja -S . -B _build >/dev/null && cmake --build _build >/dev/null && ctest --test-dir _build -j8 --timeout 900',
                        source_commits=[], add_only=True),
             engines=[dict(name='simrt', path='sim/', serves_properties=[c['property_id'] for c in checks if c['engine'] == 'simrt'],
                           kind_free_text='deterministic simulator of nsync\'s platform layer (fibers, virtual clock, modelled futex, vector clocks, lifetime tracking) driven by rapidcheck-generated tapes (16 shards) and a libFuzzer burst over the same tapes'),
                      dict(name='native', path='native/', serves_properties=[c['property_id'] for c in checks if c['engine'] == 'native'],
                           kind_free_text='rapidcheck / libFuzzer / exhaustive enumeration against the natively compiled sources or the real libraries')],
             checks=checks,
             notes='See DESIGN.md. known_findings.json lists the genuine defects found: ten repaired by fix: commits in /repo, two left open for C09 (printed as KNOWN-FINDING, excluded from the search by signature); regress/<id>/ holds their minimised tapes.',
             not_applicable=na)
    json.dump(m, open('/verif/MANIFEST.json', 'w'), indent=1)
    print('checks:', [c['property_id'] for c in checks])
    print('not_applicable:', [n['property_id'] for n in na])

if __name__ == '__main__':
    main()
