#!/usr/bin/env python3
"""Regenerates /verif/MANIFEST.json from the property table below (kept next to check.py's PROPS)."""
import json, sys
sys.path.insert(0, '/verif/tools')
import check

LEVEL_TEXT = {
 'C01': ('exploration', 'Generated MON/LOCK programs on the deterministic simulator: every acquisition path (lock, rlock, try*, cv / mu / wait_n re-acquisition, deadline and cancel races) is checked against a harness shadow of who holds the mutex and against the AnnotateRWLock* observation points inside the library. Exploration of sampled schedules, not a proof.', '6.1'),
 'C02': ('exploration', 'Exact deadlock / livelock verdicts of the simulator on generated LOCK and MON programs (incl. FREEZE schedules that take away every rescuer): a thread asleep in lock/rlock while the mutex is free is a violation; try-locks may not reach a blocking primitive.', '6.2'),
 'C03': ('exploration', 'Vector-clock happens-before race detector over client data and every non-atomic nsync field, crediting only the memory order each atomic call site declares (all three atomic.h flavours), on generated programs of all families.', '6.3'),
 'C04': ('exploration', 'Mark/snapshot accounting of which waiters a wake-up definitely covers, evaluated at quiescence on generated monitor programs with deadlines and cancellations racing the wake-up.', '6.4'),
 'C05': ('exploration', 'Assertions on every return of a timed / cancellable wait (mode, clock, note model, condition value) plus exact detection of a wait that keeps sleeping after its deadline or cancellation.', '6.5'),
 'C06': ('exploration', 'At quiescence no nsync_mu_wait caller may sleep with a true condition; inside every condition callback no other thread may be inside a write critical section.', '6.6'),
 'C13': ('exploration', 'Arena and fiber-stack lifetime tracking: any access to a freed block or to a dead part of another thread\'s stack by nsync code is a violation.', '6.13'),
}
TECH = 'property-based testing (rapidcheck-generated programs+schedules on a deterministic simulator of the nsync platform layer, explicit oracle, shrinking to a replay tape)'

def main():
    props = [json.loads(l) for l in open('/verif/properties.jsonl')]
    checks = []
    na = []
    for p in props:
        pid = p['id']
        if pid in check.PROPS and pid in LEVEL_TEXT:
            cat, text, ref = LEVEL_TEXT[pid]
            checks.append(dict(property_id=pid,
                               quick_cmd=f'python3 tools/check.py {pid} --tier quick',
                               thorough_cmd=f'python3 tools/check.py {pid} --tier thorough',
                               evidence_file=f'/verif/evidence/{pid}.json',
                               replay_cmd_template=f'python3 tools/check.py {pid} --replay {{path}}',
                               engine=check.PROPS[pid].get('engine', 'simrt'),
                               level_claimed=dict(category=cat, text=text, design_ref='DESIGN.md section ' + ref),
                               level_note=check.PROPS[pid].get('level_note', 'trusted base: the simulated platform layer (sim/platform, sim/rt), the scenario interpreter and its oracles; clang -fsanitize=thread instrumentation delivering every atomic with its declared order; bounded programs and sampled schedules'),
                               technique=check.PROPS[pid].get('technique', TECH)))
        else:
            na.append(dict(property_id=pid, reason='check not built yet in this round (planned, see DESIGN.md section 6); nothing is claimed for it'))
    m = dict(version=1,
             setup_cmd='python3 tools/check.py --setup',
             hooks=dict(guard='GOOGLE_NSYNC_VERIF',
                        enable='no source hooks exist in /repo: the checks compile /repo\'s sources against /verif/sim/platform with -DGOOGLE_NSYNC_VERIF -fsanitize=thread and link their own runtime',
                        baseline_off_cmd='cd /repo && cmake -G Ninja -S . -B _build >/dev/null && cmake --build _build >/dev/null && ctest --test-dir _build -j8 --timeout 900',
                        source_commits=[], add_only=True),
             engines=[dict(name='simrt', path='sim/', serves_properties=[c['property_id'] for c in checks if c['engine'] == 'simrt'],
                           kind_free_text='deterministic simulator of nsync\'s platform layer (fibers, virtual clock, modelled futex, vector clocks, lifetime tracking) driven by rapidcheck-generated tapes'),
                      dict(name='native', path='native/', serves_properties=[c['property_id'] for c in checks if c['engine'] == 'native'],
                           kind_free_text='rapidcheck / libFuzzer / exhaustive enumeration against the natively compiled sources or the real libraries')],
             checks=checks,
             notes='See DESIGN.md. known_findings.json lists genuine defects (all repaired by fix: commits so far); regress/<id>/ holds their minimised tapes.',
             not_applicable=na)
    json.dump(m, open('/verif/MANIFEST.json', 'w'), indent=1)
    print('checks:', [c['property_id'] for c in checks])
    print('not_applicable:', [n['property_id'] for n in na])

if __name__ == '__main__':
    main()
