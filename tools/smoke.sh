#!/bin/bash
# Smoke test for changes under sim/: every atomic flavour builds, loads and runs a few hundred cases of every property.
# usage: tools/smoke.sh      (exit 0 = fine)
cd "$(dirname "$0")/.."
python3 tools/check.py --setup >/dev/null || exit 2
rc=0
for fl in gcc_new c11 cpp11; do
  out=work/smoke/sim_$fl; mkdir -p $out
  bash tools/build_sim.sh $fl $out >/dev/null 2>$out/build.log || { echo "smoke: build $fl failed"; tail -5 $out/build.log; rc=1; continue; }
  for p in 1 2 3 4 5 6 7 8 9 10 11 12 13 14 15 16 19; do
    work/bin/simcheck --so $out/libnsyncsim_$fl.so --prop $p --cases 300 --seed 7 --max-size 100 --out $out/p$p.json >$out/p$p.log 2>&1
    [ -s $out/p$p.json ] || { echo "smoke: $fl prop $p produced no result: $(tail -1 $out/p$p.log)"; rc=1; }
  done
done
[ $rc = 0 ] && echo "smoke ok"
exit $rc
