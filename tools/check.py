#!/usr/bin/env python3
"""Driver for the nsync property checks (see /verif/DESIGN.md section 4).

usage: check.py <property id> [--tier quick|thorough] [--replay FILE]

Rebuilds what the check needs from /repo's current working tree, replays the
committed regression tapes, runs the sharded rapidcheck search (and libFuzzer /
exhaustive enumerations where the property has them), merges the evidence into
/verif/evidence/<id>.json and reports:
  exit 0                                  property held on everything explored
  KNOWN-FINDING: property=<id> <what>     for each open entry of known_findings.json (exit stays 0)
  VIOLATION property=<id> replay=<path>   + exit 1 for a violation the file does not list
"""
import hashlib, json, os, subprocess, sys, time, shutil, struct, glob

V = os.environ.get('VERIF_ROOT') or os.path.dirname(os.path.dirname(os.path.abspath(__file__)))
REPO = os.environ.get('VERIF_REPO', '/repo')
WORK = os.path.join(V, 'work')
BIN = os.path.join(WORK, 'bin')
NPROC = min(16, os.cpu_count() or 4)

FAM = dict(MON=0, LOCK=1, ONCE=2, NOTE=3, CTR=4, WAITN=5, SEM=6, REF=7, ALLOC=8, STARVE=9, DEBUGBUF=10, NOTEFREE=11)


def sh(cmd, **kw):
    return subprocess.run(cmd, shell=isinstance(cmd, str), stdout=subprocess.PIPE, stderr=subprocess.STDOUT, text=True, **kw)


def derive_seed(base, prop, shard, salt=''):
    h = hashlib.sha256(f'{base}:{prop}:{shard}:{salt}'.encode()).digest()
    return int.from_bytes(h[:4], 'little') | 1


def ensure_driver():
    """simrt + simcheck do not depend on /repo; built by setup, rebuilt here only if missing or stale."""
    os.makedirs(BIN, exist_ok=True)
    srcs = [f'{V}/sim/driver/simfuzz.cc', f'{V}/sim/rt/simrt.cc', f'{V}/sim/driver/simcheck.cc', f'{V}/sim/rt/simrt_c.h', f'{V}/sim/rt/simrt.h', f'{V}/sim/interp/interp.h']
    out = f'{BIN}/simcheck'
    if os.path.exists(out) and all(os.path.getmtime(out) >= os.path.getmtime(s) for s in srcs):
        return
    cmds = [
        f'g++ -std=gnu++17 -O2 -g -I{V}/sim/rt -c {V}/sim/rt/simrt.cc -o {BIN}/simrt.o',
        f'g++ -std=gnu++17 -O2 -g -I{V}/sim/rt -c {V}/sim/driver/simcheck.cc -o {BIN}/simcheck.o',
    ]
    ps = [subprocess.Popen(c, shell=True) for c in cmds]
    if any(p.wait() != 0 for p in ps):
        print('check.py: building the driver failed'); sys.exit(2)
    r = sh(f'g++ -rdynamic -o {out} {BIN}/simcheck.o {BIN}/simrt.o -lrapidcheck -ldl')
    if r.returncode != 0:
        print(r.stdout); sys.exit(2)
    r = sh(f'clang++ -std=gnu++17 -O2 -g -fsanitize=fuzzer -I{V}/sim/rt {V}/sim/driver/simfuzz.cc {V}/sim/rt/simrt.cc -rdynamic -ldl -o {BIN}/simfuzz')
    if r.returncode != 0:
        print(r.stdout); sys.exit(2)


def build_sim(pid, flavour, fuzz=False):
    out = f'{WORK}/{pid}/sim_{flavour}' + ('_fuzz' if fuzz else '')
    shutil.rmtree(out, ignore_errors=True)
    env = dict(os.environ, VERIF_REPO=REPO, VERIF_ROOT=V)
    if fuzz:
        env['SIM_FUZZ'] = '1'
    r = sh(f'{V}/tools/build_sim.sh {flavour} {out}', env=env)
    if r.returncode != 0:
        print(r.stdout)
        print(f'check.py: building the simulated nsync ({flavour}) from {REPO} failed')
        sys.exit(2)
    return f'{out}/libnsyncsim_{flavour}.so'


def load_known(pid):
    path = f'{V}/known_findings.json'
    if not os.path.exists(path):
        return []
    data = json.load(open(path))
    return [e for e in data.get('findings', []) if e.get('property') == pid]


# ---------------------------------------------------------------------------------------------
# property table.  sim: list of (family or None, weight); cases = per shard.
PROPS = {
    'C01': dict(num=1, sim=[(None, 3), ('STARVE', 1)], quick=400000, thorough=2000000, flavours_thorough=['gcc_new', 'c11', 'cpp11'],
                rule='a case is one decoded (program, schedule, clock, semaphore-flavour) tuple over LOCK / MON programs and STARVE programs (a victim woken up to 30+ times against bargers doing up to 200 rounds); non-trivial = at least one acquisition went through a slow path (a thread blocked on its semaphore or a CAS on the mutex word failed); distinct = distinct (program hash, realized trace hash)'),
    'C03': dict(num=3, sim=[(None, 1)], quick=250000, thorough=1500000, flavours_quick=['gcc_new', 'c11', 'cpp11'], flavours_thorough=['gcc_new', 'c11', 'cpp11'],
                rule='programs of the MON/LOCK/ONCE/NOTE/CTR/WAITN families with client data attached to every hand-off, all three atomic flavours; oracle = vector-clock race detector crediting only declared memory orders; non-trivial = the execution contains at least one plain access that conflicts with an earlier access of another thread and is ordered only through nsync atomics; distinct = distinct (program hash, realized trace hash)'),
    'C04': dict(num=4, sim=[('MON', 1)], quick=400000, thorough=2000000, flavours_quick=[('gcc_new', 14), ('cpp11', 2)], flavours_thorough=['gcc_new', 'c11', 'cpp11'],
                rule='MON programs with cv waiters (plain, timed, cancellable, reader-mode, generic-lock, nsync_wait_n) and signallers/broadcasters inside or after critical sections; non-trivial = a wait on the cv returned (for any reason) between the first and the last step of a wake-up call on that cv that could see it; distinct = distinct (program hash, realized trace hash)'),
    'C05': dict(num=5, sim=[('MON', 1)], quick=400000, thorough=2000000, flavours_quick=[('gcc_new', 14), ('cpp11', 2)], flavours_thorough=['gcc_new', 'c11', 'cpp11'],
                rule='MON programs with timed / cancellable cv and mu waits, notes fresh / notified / expiring / child of an expiring parent, reader and writer mode; non-trivial = some wait returned ETIMEDOUT or ECANCELED; distinct = distinct (program hash, realized trace hash)'),
    'C06': dict(num=6, sim=[('MON', 1)], quick=400000, thorough=2000000, flavours_thorough=['gcc_new', 'c11', 'cpp11'],
                rule='MON programs with 2..4 nsync_mu_wait callers over 7 condition classes (same function and argument, same function and different argument, arguments equivalent under condition_arg_eq, a different function on an eq-equivalent argument, a different function, no condition), one in four built around the MU_ALL_FALSE hint (waiter + writer that makes its condition true and then blocks or unlocks under contention + reader / unlock_without_wakeup release); non-trivial = two conditional waiters were queued together and an unlocker evaluated a condition, or a conditional waiter left the queue by timeout/cancel while another was queued; distinct = distinct (program hash, realized trace hash)'),
    'C13': dict(num=13, sim=[(f, 1) for f in ('MON', 'REF', 'WAITN', 'MON', 'CTR', 'MON', 'NOTE', 'REF', 'MON', 'WAITN', 'MON', 'REF', 'CTR', 'WAITN', 'NOTE', 'MON')], quick=300000, thorough=2000000, flavours_thorough=['gcc_new', 'cpp11'],
                rule='REF programs (reference-count pattern: lock; [timed mu_wait | cv_wait | signal]; last=(--refs==0); unlock; if last free) and WAITN/MON/CTR/NOTE programs in which cv signal/broadcast, note notify and zeroing decrements race nsync_wait_n, nsync_counter_wait, nsync_note_wait and cancellable waits whose deadline or other objects can end the wait at any moment; oracle = arena / fiber-stack lifetime tracking; non-trivial = the free happened while another thread was still inside its unlock on the object (REF), a wake-up overlapped a wait on the same object (WAITN), or a wait returned between the first and last step of a wake-up that could see it (MON); distinct = distinct (program hash, realized trace hash)'),
    'C07': dict(num=7, sim=[('ONCE', 1)], quick=300000, thorough=2000000, flavours_thorough=['gcc_new', 'c11', 'cpp11'],
                rule='ONCE programs: 2..4 callers x 4 variants x 3 once objects (two sharing an internal lock), once-functions with scheduling points and nested run_once; non-trivial = a caller arrived while the once word was 1 (function running); distinct = distinct (program hash, realized trace hash)'),
    'C08': dict(num=8, sim=[('NOTE', 1)], quick=300000, thorough=2000000, flavours_thorough=['gcc_new', 'c11', 'cpp11'],
                rule='NOTE programs: trees of <=8 notes (depth<=3, deadlines none/past/soon/later), threads notify / poll / wait / wait_n / cancellable cv wait / create children / read expiry, checked against a model of causes (notify on note or ancestor, chain deadline) over the recorded history and at quiescence; non-trivial = a poll or wait overlapped an in-flight notify of the same note or an ancestor; distinct = distinct (program hash, realized trace hash)'),
    'C09': dict(num=9, sim=[('NOTEFREE', 1)], quick=300000, thorough=2000000, flavours_thorough=['gcc_new', 'c11', 'cpp11'],
                rule='NOTEFREE programs: parent-child-grandchild(+sibling,+second grandchild), 2..4 threads notify / poll / timed wait / new-child / free with a harness gate that lets a note be freed only after the other threads\' operations on that same note completed; oracle = no deadlock/livelock, no access to freed memory, final adoption check; non-trivial = a free overlapped a notify/free/create on a directly related note; distinct = distinct (program hash, realized trace hash)'),
    'C10': dict(num=10, sim=[('CTR', 1)], quick=300000, thorough=2000000, flavours_thorough=['gcc_new', 'c11', 'cpp11'],
                rule='CTR programs: initial value 0..3 + prologue increments, 2..4 threads add(-1) / add(0) / value / wait / wait_n, and (one program in four) arithmetic programs without waiters mixing add(+1) / add(-1) / add(0) / value; oracle = linearizability of returned values against an integer, wait results against the value history, release at zero; non-trivial = a wait was in progress when the zeroing decrement started, or >=2 waiters were queued at zero, or (arithmetic programs) an increment overlapped a decrement; distinct = distinct (program hash, realized trace hash)'),
    'C11': dict(num=11, sim=[(f, 1) for f in ('WAITN', 'MON', 'NOTE', 'MON', 'WAITN', 'MON', 'WAITN', 'MON', 'NOTE', 'MON', 'WAITN', 'MON', 'WAITN', 'MON', 'WAITN', 'MON')], quick=500000, thorough=2000000, flavours_thorough=['gcc_new', 'c11', 'cpp11'],
                rule='WAITN programs: 1..2 nsync_wait_n callers over 1..5 objects (note / counter / cv / logging probe waitable; stack and heap bookkeeping), actors making objects ready before/during/after registration, deadlines past/future/none, with and without a logging mutex; MON programs with nsync_wait_n on a cv; NOTE programs (nsync_wait_n over notes with deadlines); non-trivial = a make-ready operation overlapped a call that lists the object; distinct = distinct (program hash, realized trace hash)'),
    'C12': dict(fuzz_runs_thorough=100000, num=12, level='fault_enumeration', sim=[('SEM', 1)], quick=60000, thorough=1500000, flavours_thorough=['gcc_new', 'cpp11'],
                rule='SEM programs: the real nsync_semaphore_futex.c on the modelled futex; one waiter with a generated sequence of P / timed P, 1..2 posters, clock moves and either a generated vector of up to 8 injected futex faults (EINTR, EAGAIN, premature ETIMEDOUT, spurious 0) or, for one case in five, EVERY placement of up to 2 faults over the first 6 futex waits x 3 kinds (154 executions of that program and schedule; evaluations counts executions); non-trivial = a fault was consumed, the waiter blocked, or a CAS on the count failed (post landed between load and futex call); distinct = distinct (program hash incl. fault vector, realized trace hash)'),
    'C14': dict(fuzz_runs_thorough=200000, num=14, sim=[('STARVE', 1)], quick=20000, thorough=400000, flavours_thorough=['gcc_new'],
                rule='STARVE programs: victim (writer among readers / writer among writers / reader among writers) against 2..4 bargers x 40..200 fresh acquire/release rounds under an adversarial scheduling policy with generated perturbations (3/4 of the cases) or RANDOM/PCT schedules; oracle = number of times the victim goes back to sleep inside one lock call <= 31+2T+2; non-trivial = the victim slept >= 31 times (the long-wait escalation engaged); distinct = distinct (scenario+policy parameters, realized trace hash)'),
    'C16': dict(fuzz_runs_thorough=300000, num=16, sim=[(None, 1)], quick=150000, thorough=1000000, flavours_thorough=['gcc_new', 'cpp11'],
                rule='LOCK and MON programs with debug-state callers on the same mutex / cv (oracles of C01, C02, C04 unchanged) and DEBUGBUF programs: frozen mutex/cv states with 0..3 queued waiters, all four functions for EVERY buffer size 0..80 with canaries and the output(n) vs output(1024) relation; non-trivial = a debug call ran while some acquisition went through a slow path (schedules) or truncation occurred (inputs); distinct = distinct (program hash, realized trace hash)'),
    'C19': dict(fuzz_runs_thorough=300000, num=19, level='fault_enumeration', sim=[('ALLOC', 1)], quick=60000, thorough=1000000, flavours_thorough=['gcc_new', 'cpp11'],
                rule='ALLOC scripts (trees of <=6 notes with deadlines none/past/future, <=3 counters, notifies); for each script EVERY allocation from note.c / counter.c call sites is failed in turn (exhaustive per script); evaluations counts executions (script x fault position); non-trivial = a script in which some constructor returned NULL while other objects existed; distinct = distinct scripts'),
    'C15': dict(num=15, sim=[('MON', 1)], quick=150000, thorough=1000000, flavours_thorough=['gcc_new', 'cpp11'],
                rule='(simulated twin of C15) MON programs whose past deadlines include instants before the epoch, on the modelled kernel futex (EINVAL for tv_sec<0)'),
    'C02': dict(num=2, sim=[(None, 3), ('STARVE', 1)], quick=400000, thorough=2000000, flavours_thorough=['gcc_new', 'c11', 'cpp11'],
                rule='LOCK and MON programs, and STARVE programs (one victim against bargers doing up to 200 lock/unlock rounds, then a fresh locker on the idle mutex), x RANDOM/PCT/BYTES/FREEZE/adversary schedules x 3 semaphore flavours; non-trivial = some thread slept on its semaphore inside nsync_mu_lock/rlock and was woken by an unlocker (hand-off happened); distinct = distinct (program hash, realized trace hash)'),
}


def run_sim_property(pid, tier, seed, embedded=False):
    cfg = PROPS[pid]
    t0 = time.time()
    ensure_driver()
    known = load_known(pid)
    open_known = [e for e in known if e.get('status') == 'open']
    suppress = ';'.join(e['signature'] for e in open_known)
    flavours = cfg.get('flavours_quick', ['gcc_new']) if tier == 'quick' else cfg.get('flavours_thorough', ['gcc_new'])
    # an entry is a flavour name (shards divided evenly) or (name, number of shards)
    fl_shards = {f[0]: f[1] for f in flavours if not isinstance(f, str)}
    flavours = [f if isinstance(f, str) else f[0] for f in flavours]
    sos = {fl: build_sim(pid, fl) for fl in flavours}
    wdir = f'{WORK}/{pid}'
    violations = []
    known_seen = {}

    # 1. regression tapes (REPLAY semantics, no search)
    regress_n = 0
    for tape in sorted(glob.glob(f'{V}/regress/{pid}/*.tape')):
        regress_n += 1
        fam = None
        meta = tape[:-5] + '.json'
        if os.path.exists(meta):
            fam = json.load(open(meta)).get('family')
        cmd = [f'{BIN}/simcheck', '--so', sos['gcc_new'], '--prop', str(cfg['num']), '--replay', tape, '--out', f'{wdir}/regress.json']
        if fam is not None:
            cmd += ['--family', str(fam)]
        if suppress:
            cmd += ['--suppress', suppress]
        r = subprocess.run(cmd, stdout=subprocess.PIPE, stderr=subprocess.STDOUT, text=True, timeout=600)
        res = json.load(open(f'{wdir}/regress.json'))
        if res['owned'] and not res['known']:
            violations.append(dict(sig=res['sig'], msg=res['msg'], tape=open(tape, 'rb').read(), dump=res['dump'], source=f'regression tape {os.path.basename(tape)}', family=fam))
        elif res['known']:
            known_seen[res['sig']] = known_seen.get(res['sig'], 0) + 1

    # 2. sharded rapidcheck search
    cases = cfg[tier]
    jobs = []
    shard = 0
    for fl in flavours:
        nshards = fl_shards.get(fl) or (NPROC if len(flavours) == 1 else max(4, NPROC // len(flavours)))
        for k in range(nshards):
            famlist = [f for (f, w) in cfg['sim'] for _ in range(w)]
            fam = famlist[(k + (3 if fl in fl_shards and fl != flavours[0] else 0)) % len(famlist)]
            out = f'{wdir}/shard_{shard}.json'
            hs = f'{wdir}/shard_{shard}.hashes'
            cmd = [f'{BIN}/simcheck', '--so', sos[fl], '--prop', str(cfg['num']), '--cases', str(cases),
                   '--seed', str(derive_seed(seed, pid, shard, fl)), '--max-size', str(cfg.get('max_size', 100)), '--out', out, '--hashes', hs]
            if fam is not None:
                cmd += ['--family', str(FAM[fam])]
            if suppress:
                cmd += ['--suppress', suppress]
            jobs.append((shard, fl, fam, cmd, out, hs))
            shard += 1
    procs = []
    for (sid, fl, fam, cmd, out, hs) in jobs:
        for p in (out, hs):
            if os.path.exists(p):
                os.remove(p)
        procs.append(subprocess.Popen(cmd, stdout=open(f'{wdir}/shard_{sid}.log', 'w'), stderr=subprocess.STDOUT))
    timeout = 1500 if tier == 'quick' else 6 * 3600
    deadline = time.time() + timeout
    inconclusive = 0
    for p in procs:
        try:
            p.wait(timeout=max(1, deadline - time.time()))
        except subprocess.TimeoutExpired:
            p.kill(); inconclusive += 1
    nondeterministic = []
    merged = dict(evaluations=0, foreign=0, budget=0, excluded=0, suppressed=0)
    totals = {}
    hists = {}
    samples = []
    hash_files = []
    for (sid, fl, fam, cmd, out, hs) in jobs:
        if not os.path.exists(out):
            inconclusive += 1
            continue
        try:
            d = json.load(open(out))
        except Exception:
            inconclusive += 1
            continue
        for k in merged:
            merged[k] += d.get(k, 0)
        for k, v in d.get('totals', {}).items():
            totals[k] = totals.get(k, 0) + v
        for hname in ('verdicts', 'suppressed_by_known_finding', 'families', 'strategies', 'threads', 'sem_flavours', 'events'):
            h = hists.setdefault(hname, {})
            for k, v in d.get(hname, {}).items():
                h[k] = h.get(k, 0) + v
        hists.setdefault('atomic_flavours', {})
        hists['atomic_flavours'][fl] = hists['atomic_flavours'].get(fl, 0) + d.get('evaluations', 0)
        if len(samples) < 4:
            samples += d.get('samples', [])[:1]
        if os.path.exists(hs):
            hash_files.append(hs)
        if not d.get('ok', True) and 'failure' in d:
            f = d['failure']
            if f.get('deterministic', 0) < 3 and f.get('failing', 0) == 3:
                # fails on every replay with an owned, unlisted verdict, but not always with the same symptom: the
                # code under test reads uninitialised or recycled memory (stacks are not wiped between executions)
                hists.setdefault('failures_with_varying_symptom', {})[f['sig']] = 1
                f['msg'] += ' [fails in 3 of 3 replays; the symptom varies between replays]'
            elif f.get('deterministic', 0) < 3:
                # a replay that does not reproduce is a harness problem, not a violation (DESIGN 3.7)
                hists.setdefault('nondeterministic_failures', {})[f['sig']] = 1
                nondeterministic.append((sid, f['sig']))
                continue
            violations.append(dict(sig=f['sig'], msg=f['msg'], tape=bytes.fromhex(f['tape_hex']), dump=f['dump'], source=f'shard {sid} ({fl})', family=(FAM[fam] if fam else None), trace=f.get('trace_hex', '')))
    for sig, n in hists.get('suppressed_by_known_finding', {}).items():
        known_seen[sig] = known_seen.get(sig, 0) + n
    # distinct (program hash, trace hash) pairs over all shards, merged outside Python (tens of millions in the thorough tier)
    rr = subprocess.run([f'{BIN}/simcheck', '--count-distinct'] + hash_files, stdout=subprocess.PIPE, text=True)
    n_distinct = int(rr.stdout.strip() or 0)

    # 3. coverage-guided burst: libFuzzer over the same tapes, feedback from nsync's own edges
    fuzz_stats = dict(processes=0, runs=0, nontrivial_executions=0, suppressed=0, corpus_units_added=0)
    if not violations and cfg.get('fuzz', True):
        so_f = build_sim(pid, 'gcc_new', fuzz=True)
        nf = 4 if tier == 'quick' else NPROC
        runs = cfg.get('fuzz_runs_quick', 120000) if tier == 'quick' else cfg.get('fuzz_runs_thorough', 2000000)
        fprocs = []
        famlist = [f for (f, w) in cfg['sim'] for _ in range(w)]
        for k in range(nf):
            fdir = f'{wdir}/fuzz_{k}'; shutil.rmtree(fdir, ignore_errors=True); os.makedirs(f'{fdir}/corpus'); os.makedirs(f'{fdir}/art')
            env = dict(os.environ, SIMFUZZ_SO=so_f, SIMFUZZ_PROP=str(cfg['num']))
            fam = famlist[k % len(famlist)]
            if fam is not None:
                env['SIMFUZZ_FAMILY'] = str(FAM[fam])
            if suppress:
                env['SIMFUZZ_SUPPRESS'] = suppress
            cmd = [f'{BIN}/simfuzz', f'-runs={runs}', f'-seed={derive_seed(seed, pid, k, "fuzz")}', '-max_len=400', '-handle_segv=0', '-handle_bus=0', '-handle_ill=0', '-handle_fpe=0',
                   '-timeout=60', '-rss_limit_mb=0', f'-artifact_prefix={fdir}/art/', '-print_final_stats=1', f'{fdir}/corpus']
            if os.path.isdir(f'{V}/corpus/{pid}'):
                cmd.append(f'{V}/corpus/{pid}')
            fprocs.append((k, fam, fdir, subprocess.Popen(cmd, env=env, stdout=open(f'{fdir}/log', 'w'), stderr=subprocess.STDOUT)))
        for (k, fam, fdir, p) in fprocs:
            try:
                p.wait(timeout=max(60, deadline - time.time()))
            except subprocess.TimeoutExpired:
                p.kill()
            log = open(f'{fdir}/log', errors='replace').read()
            fuzz_stats['processes'] += 1
            for line in log.splitlines():
                if line.startswith('stat::number_of_executed_units:'):
                    fuzz_stats['runs'] += int(line.split()[-1])
                if line.startswith('stat::new_units_added:'):
                    fuzz_stats['corpus_units_added'] += int(line.split()[-1])
                if line.startswith('SIMFUZZ-STATS'):
                    kv = dict(x.split('=') for x in line.split()[1:])
                    fuzz_stats['nontrivial_executions'] = fuzz_stats.get('_nt', 0) + int(kv['nontrivial']); fuzz_stats['_nt'] = fuzz_stats['nontrivial_executions']
                    fuzz_stats['suppressed'] = fuzz_stats.get('_sp', 0) + int(kv['suppressed']); fuzz_stats['_sp'] = fuzz_stats['suppressed']
            # only crash-* artifacts are violations; timeout-/oom-/slow-unit- are load noise
            for art in glob.glob(f'{fdir}/art/crash-*'):
                cmd = [f'{BIN}/simcheck', '--so', sos['gcc_new'], '--prop', str(cfg['num']), '--replay', art, '--out', f'{wdir}/fuzzreplay.json']
                if fam is not None:
                    cmd += ['--family', str(FAM[fam])]
                if suppress:
                    cmd += ['--suppress', suppress]
                if os.path.exists(f'{wdir}/fuzzreplay.json'):
                    os.remove(f'{wdir}/fuzzreplay.json')
                rr = subprocess.run(cmd, stdout=subprocess.PIPE, stderr=subprocess.STDOUT, text=True, timeout=600)
                if not os.path.exists(f'{wdir}/fuzzreplay.json'):
                    nondeterministic.append((f'fuzz{k}', 'the harness itself died on a fuzzer input: ' + rr.stdout.strip()[-200:]))
                    shutil.copy(art, f'{wdir}/harness_crash.tape')
                    continue
                res = json.load(open(f'{wdir}/fuzzreplay.json'))
                if res['owned'] and not res['known'] and res['deterministic'] == 3:
                    violations.append(dict(sig=res['sig'], msg=res['msg'], tape=open(art, 'rb').read(), dump=res['dump'], source=f'libFuzzer process {k}', family=(FAM[fam] if fam else None)))
                elif not res['owned']:
                    nondeterministic.append((f'fuzz{k}', 'crash artifact does not reproduce as an owned verdict: ' + res['sig']))
        fuzz_stats.pop('_nt', None); fuzz_stats.pop('_sp', None)
        merged['evaluations'] += fuzz_stats['runs']

    if nondeterministic and not violations:
        print(f'check.py: shard(s) reported a failure that did not replay 3/3 ({nondeterministic[:3]}): harness nondeterminism, the check is broken (exit 2)')
        return 2
    if inconclusive > 0 or merged['evaluations'] == 0:
        # never pass silently: a shard that crashed, timed out or could not start is a broken check, not a held property
        for (sid, fl, fam, cmd, out, hs) in jobs:
            if not os.path.exists(out):
                print(f'check.py: shard {sid} produced no result; last lines of its log:')
                print(''.join(open(f'{wdir}/shard_{sid}.log').readlines()[-5:]))
                break
        print(f'check.py: {inconclusive} shard(s) inconclusive for {pid}: the check itself is broken (exit 2)')
        return 2
    wall = time.time() - t0
    ev = dict(property_id=pid, tier=tier, seed=seed, level=cfg.get('level', 'exploration'),
              coverage=dict(evaluations=merged['evaluations'] + regress_n, distinct_nontrivial=n_distinct, rule=cfg['rule'],
                            samples=samples[:4] if samples else ['(no non-trivial sample captured)'], exhaustive=False,
                            regression_tapes_replayed=regress_n, foreign_verdicts=merged['foreign'], inconclusive_step_budget=merged['budget'],
                            inconclusive_shards=inconclusive, excluded_from_strict_oracle=merged['excluded'],
                            excluded_by_known_finding=merged['suppressed'] + fuzz_stats['suppressed'], libfuzzer=fuzz_stats, totals=totals, histograms=hists, atomic_flavours=flavours),
              assumptions=['simulated platform layer (fibers, virtual clock, modelled futex / native semaphores) stands in for the real one',
                           'values are sequentially consistent; ordering is tracked by the vector-clock engine only',
                           'bounded programs (<=6 threads, <=3 sections each) and sampled schedules: exploration, not proof'],
              wall_s=round(wall, 2), violations=len(violations))
    if embedded:
        return dict(ev=ev, violations=violations)
    os.makedirs(f'{V}/evidence', exist_ok=True)
    json.dump(ev, open(f'{V}/evidence/{pid}.json', 'w'), indent=1)

    for e in open_known:
        print(f"KNOWN-FINDING: property={pid} {e['what']} [signature {e['signature']}; reproduced {known_seen.get(e['signature'], 0)}x in this run]")
    if violations:
        os.makedirs(f'{V}/replays/{pid}', exist_ok=True)
        seen = set()
        first = None
        for v in violations:
            if v['sig'] in seen:
                continue
            seen.add(v['sig'])
            name = hashlib.sha1(v['sig'].encode()).hexdigest()[:10]
            path = f'{V}/replays/{pid}/{name}.tape'
            open(path, 'wb').write(v['tape'])
            json.dump(dict(family=v.get('family'), sig=v['sig'], msg=v['msg'], source=v['source'], trace_hex=v.get('trace', '')), open(path[:-5] + '.json', 'w'), indent=1)
            open(path[:-5] + '.txt', 'w').write(v['dump'] + '\n' + v['msg'] + '\n')
            print(f"  violation [{v['sig']}] from {v['source']}: {v['msg']}")
            print(f'VIOLATION property={pid} replay={path}')
            first = first or path
        return 1
    print(f"OK property={pid} tier={tier} evaluations={ev['coverage']['evaluations']} distinct_nontrivial={n_distinct} wall={wall:.1f}s")
    return 0


def replay(pid, path):
    cfg = PROPS[pid]
    ensure_driver()
    so = build_sim(pid, 'gcc_new')
    known = [e for e in load_known(pid) if e.get('status') == 'open']
    cmd = [f'{BIN}/simcheck', '--so', so, '--prop', str(cfg['num']), '--replay', path, '--dump']
    meta = path[:-5] + '.json'
    if os.path.exists(meta):
        fam = json.load(open(meta)).get('family')
        if fam is not None:
            cmd += ['--family', str(fam)]
    if known:
        cmd += ['--suppress', ';'.join(e['signature'] for e in known)]
    r = subprocess.run(cmd)
    if r.returncode == 1:
        print(f'VIOLATION property={pid} replay={path}')
    return r.returncode



# ---------------------------------------------------------------------------------------------
# native checks: C15 (real libraries, child processes), C17 (dll.c), C18 (time arithmetic)
CINC = lambda: f'-I{REPO}/public -I{REPO}/platform/linux -I{REPO}/platform/gcc -I{REPO}/platform/x86_64 -I{REPO}/platform/posix -I{REPO}/internal'
CXXINC = lambda: f'-I{REPO}/public -I{REPO}/platform/c++11.futex -I{REPO}/platform/c++11 -I{REPO}/platform/gcc -I{REPO}/platform/x86_64 -I{REPO}/platform/posix -I{REPO}/internal'
SAN = '-g -O1 -fsanitize=address,undefined -fno-sanitize-recover=undefined'
NATIVE_RULES = {  # C15: plus a simulated twin, see PROPS['C15']

    'C17': 'part (a): EVERY state of the model-state graph reachable over 5 elements and 2 lists (rings of elements, list heads) is visited and EVERY legal operation (make_first, make_last, remove, splice_after) is executed from it on the real dll.c and compared with plain arrays (forward, backward, emptiness, self-linked singletons) - exhaustive; part (b): rapidcheck sequences of up to 200 operations over 8 elements / 3 lists; part (c): libFuzzer over the same interpreter with ASan+UBSan; non-trivial = sequence contains a splice or a removal from a list of >= 2 elements; distinct = distinct model states (a) + distinct operation sequences (b)',
    'C18': 'part (a): boundary grid seconds {0,+-1,+-2,+-2^31,2^31-1,+-2^40,+-2^62,max-1,min+2} x nanoseconds {0,1,5e8,1e9-1}, ALL pairs, cmp transitivity triples, ms/us grid, both builds (C file and C++ file linked together) - exhaustive; part (b): rapidcheck over normalized pairs with magnitudes spread over all bit lengths plus random 32-bit ms/us arguments; part (c): libFuzzer; oracle = 128-bit integer arithmetic; pairs whose seconds arithmetic would overflow time_t are not judged for add/sub; non-trivial = the pair needs a carry or a borrow; distinct = distinct pairs',
    'C15': 'simulated twin: MON programs with pre-epoch deadlines on the modelled futex; real libraries: exhaustive boundary grid 16 deadlines (0, +-1 ns, +-1 s, -2^31 s, -2^62 s, INT64_MIN+1 s, now-30ms, now-2s, now+20ms, now+40ms, max-1ns, max-1s, no_deadline, now+1000s) x 9 timed entry points x {libnsync.a, libnsync_cpp.a} built by cmake from the working tree, and, for the C++ build, the same 9 entry points through their std::chrono time_point overloads on a second grid of 16 instants (epoch, +-1 ns, -0.5 s, -1.5 s, +-1 s, -2^31 s, time_point::min, now-30ms, now-2s, now+20/40ms, time_point::max, max-1.85s, now+1000s); each case in its own child process with a 20 s watchdog (3/3 hangs only); plus rapidcheck random deadlines (pre-epoch, epoch..now, now-d, now+20..60ms, far future); non-trivial = a deadline the existing suite does not use (not 0, not no_deadline, not now+small); distinct = distinct (library, entry, deadline) triples',
}


def native_build_common():
    os.makedirs(BIN, exist_ok=True)
    jobs = []
    for name, src, extra in (('c17', f'{V}/native/c17_dll.cc', ''), ('c18', f'{V}/native/c18_time.cc', ''),):
        o = f'{BIN}/{name}.o'
        if not os.path.exists(o) or os.path.getmtime(o) < os.path.getmtime(src):
            jobs.append(f'clang++ -std=gnu++17 {SAN} -c {src} -o {o}')
        fo = f'{BIN}/{name}_fuzz.o'
        if not os.path.exists(fo) or os.path.getmtime(fo) < os.path.getmtime(src):
            jobs.append(f'clang++ -std=gnu++17 {SAN} -fsanitize=fuzzer-no-link -D{name.upper()}_FUZZ -c {src} -o {fo}')
    d = f'{BIN}/c15_drive'
    if not os.path.exists(d) or os.path.getmtime(d) < os.path.getmtime(f'{V}/native/c15_drive.cc'):
        jobs.append(f'g++ -std=gnu++17 -O1 -g {V}/native/c15_drive.cc -lrapidcheck -o {d}')
    ps = [subprocess.Popen(c, shell=True) for c in jobs]
    if any(p.wait() != 0 for p in ps):
        print('check.py: building the native drivers failed'); sys.exit(2)


def must(cmd):
    r = sh(cmd)
    if r.returncode != 0:
        print(r.stdout[-3000:]); print('check.py: build step failed:', cmd[:200]); sys.exit(2)


def native_build(pid):
    wdir = f'{WORK}/{pid}'
    os.makedirs(wdir, exist_ok=True)
    native_build_common()
    if pid == 'C17':
        must(f'clang {SAN} {CINC()} -c {REPO}/internal/dll.c -o {wdir}/dll.o')
        must(f'clang {SAN} -fsanitize=fuzzer-no-link {CINC()} -c {REPO}/internal/dll.c -o {wdir}/dll_fuzz.o')
        must(f'clang++ -fsanitize=address,undefined -o {wdir}/c17_check {BIN}/c17.o {wdir}/dll.o -lrapidcheck')
        must(f'clang++ -fsanitize=fuzzer,address,undefined -o {wdir}/c17_fuzz {BIN}/c17_fuzz.o {wdir}/dll_fuzz.o')
    elif pid == 'C18':
        defs = '-DNSYNC_USE_CPP11_TIMEPOINT -DNSYNC_ATOMIC_CPP11'
        for tag, extra in (('', ''), ('_fuzz', '-fsanitize=fuzzer-no-link')):
            must(f'clang {SAN} {extra} {CINC()} -c {REPO}/platform/posix/src/time_rep.c -o {wdir}/time_rep_c{tag}.o')
            must(f'clang {SAN} {extra} {CINC()} -c {REPO}/internal/time_internal.c -o {wdir}/time_internal_c{tag}.o')
            must(f'clang++ -std=gnu++11 {SAN} {extra} {CXXINC()} {defs} -c {REPO}/platform/c++11/src/time_rep_timespec.cc -o {wdir}/time_rep_cpp{tag}.o')
            must(f'clang++ -x c++ -std=gnu++11 {SAN} {extra} {CXXINC()} {defs} -c {REPO}/internal/time_internal.c -o {wdir}/time_internal_cpp{tag}.o')
        objs = lambda tag: ' '.join(f'{wdir}/{n}{tag}.o' for n in ('time_rep_c', 'time_internal_c', 'time_rep_cpp', 'time_internal_cpp'))
        must(f'clang++ -fsanitize=address,undefined -o {wdir}/c18_check {BIN}/c18.o {objs("")} -lrapidcheck -lpthread')
        must(f'clang++ -fsanitize=fuzzer,address,undefined -o {wdir}/c18_fuzz {BIN}/c18_fuzz.o {objs("_fuzz")} -lpthread')
    elif pid == 'C15':
        cache = f'{wdir}/build/CMakeCache.txt'
        if os.path.exists(cache) and f'CMAKE_HOME_DIRECTORY:INTERNAL={os.path.realpath(REPO)}\n' not in open(cache).read():
            shutil.rmtree(f'{wdir}/build')   # configured for another source tree (VERIF_REPO)
        must(f'cmake -G Ninja -S {REPO} -B {wdir}/build -DNSYNC_ENABLE_TESTS=OFF -DCMAKE_BUILD_TYPE=RelWithDebInfo')
        must(f'cmake --build {wdir}/build')
        must(f'gcc -O1 -g -I{REPO}/public {V}/native/c15_child.c {wdir}/build/libnsync.a -lpthread -o {wdir}/c15_child_c')
        must(f'g++ -std=gnu++11 -O1 -g -DNSYNC_USE_CPP11_TIMEPOINT -DNSYNC_ATOMIC_CPP11 -I{REPO}/platform/c++11 -I{REPO}/public -x c++ {V}/native/c15_child.c -x none {wdir}/build/libnsync_cpp.a -lpthread -o {wdir}/c15_child_cpp')


def native_cmd(pid, wdir):
    if pid == 'C17':
        return [f'{wdir}/c17_check']
    if pid == 'C18':
        return [f'{wdir}/c18_check']
    return [f'{BIN}/c15_drive', '--child-c', f'{wdir}/c15_child_c', '--child-cpp', f'{wdir}/c15_child_cpp']


def run_native_property(pid, tier, seed):
    t0 = time.time()
    wdir = f'{WORK}/{pid}'
    native_build(pid)
    base = native_cmd(pid, wdir)
    violations = []
    # regression cases first
    regress_n = 0
    for case in sorted(glob.glob(f'{V}/regress/{pid}/*.case')):
        regress_n += 1
        r = subprocess.run(base + ['--replay', case], stdout=subprocess.PIPE, stderr=subprocess.STDOUT, text=True, timeout=600)
        if r.returncode == 1:
            violations.append(dict(msg=r.stdout.strip().splitlines()[-1], case=open(case).read(), source=f'regression case {os.path.basename(case)}'))
        elif r.returncode != 0:
            print(r.stdout); print('check.py: regression replay failed to run'); return 2
    quick = tier == 'quick'
    if pid == 'C15':
        nsh, cases = 8, (40 if quick else 1500)
    elif pid == 'C17':
        nsh, cases = NPROC, (20000 if quick else 600000)
    else:
        nsh, cases = NPROC, (300000 if quick else 3000000)
    procs = []
    for k in range(nsh):
        out = f'{wdir}/shard_{k}.json'; fo = f'{wdir}/shard_{k}.fail'
        for p_ in (out, fo):
            if os.path.exists(p_): os.remove(p_)
        cmd = base + ['--out', out, '--fail-out', fo, '--cases', str(cases), '--seed', str(derive_seed(seed, pid, k))]
        if pid == 'C15':
            cmd += ['--shard', str(k), '--nshards', str(nsh)]
        if pid == 'C17' and k > 0:
            cmd += ['--exhaustive-elements', '3']   # the full 5-element enumeration runs once, in shard 0
        procs.append((k, out, fo, subprocess.Popen(cmd, stdout=open(f'{wdir}/shard_{k}.log', 'w'), stderr=subprocess.STDOUT)))
    # libFuzzer burst (C17, C18) while the shards run
    fuzz = None
    fuzz_runs = 0
    if pid in ('C17', 'C18'):
        fdir = f'{wdir}/fuzz'; shutil.rmtree(fdir, ignore_errors=True); os.makedirs(f'{fdir}/corpus'); os.makedirs(f'{fdir}/art')
        seeds_dir = f'{V}/corpus/{pid}'
        runs = 400000 if quick else 8000000
        cmd = [f'{wdir}/{pid.lower()}_fuzz', f'-runs={runs}', f'-seed={max(1, seed)}', '-max_len=600', f'-artifact_prefix={fdir}/art/', '-print_final_stats=1', f'{fdir}/corpus'] + ([seeds_dir] if os.path.isdir(seeds_dir) else [])
        fuzz = subprocess.Popen(cmd, stdout=open(f'{wdir}/fuzz.log', 'w'), stderr=subprocess.STDOUT)
    evaluations = 0; distinct = 0; samples = []; extra = {}; broken = 0
    for (k, out, fo, p) in procs:
        try:
            p.wait(timeout=3 * 3600)
        except subprocess.TimeoutExpired:
            p.kill(); broken += 1; continue
        if not os.path.exists(out):
            broken += 1; continue
        d = json.load(open(out))
        if pid == 'C17':
            evaluations += d['rc_cases'] + (d['exhaustive_transitions'] if k == 0 else 0)
            distinct += d['rc_distinct_nontrivial'] + (d['exhaustive_states'] if k == 0 else 0)
            if k == 0:
                extra.update(exhaustive_states=d['exhaustive_states'], exhaustive_transitions=d['exhaustive_transitions'], exhaustive_elements=d['exhaustive_elements'])
        elif pid == 'C18':
            evaluations += d['rc_cases'] + (d['grid_cases'] if k == 0 else 0)
            distinct += d['rc_distinct_nontrivial'] + (d['grid_nontrivial'] if k == 0 else 0)
            if k == 0:
                extra.update(grid_cases=d['grid_cases'])
        else:
            evaluations += d['evaluations']; distinct += d['distinct_nontrivial']
        if len(samples) < 5:
            samples += d.get('samples', [])[:2]
        if not d['ok']:
            violations.append(dict(msg=d['failure'], case=open(fo).read() if os.path.exists(fo) else '', source=f'shard {k}'))
    if fuzz is not None:
        try:
            fuzz.wait(timeout=3 * 3600)
        except subprocess.TimeoutExpired:
            fuzz.kill()
        log = open(f'{wdir}/fuzz.log', errors='replace').read()
        for line in log.splitlines():
            if line.startswith('stat::number_of_executed_units:'):
                fuzz_runs = int(line.split()[-1])
        arts = [a for a in glob.glob(f'{wdir}/fuzz/art/crash-*')]
        for a in arts:
            violations.append(dict(msg='libFuzzer crash artifact: ' + ' '.join(l for l in log.splitlines() if 'violation' in l or 'ERROR' in l)[:300], case=None, artifact=a, source='libFuzzer'))
        extra['libfuzzer_runs'] = fuzz_runs
        evaluations += fuzz_runs
    if broken:
        print(f'check.py: {broken} shard(s) of {pid} produced no result: the check itself is broken (exit 2)'); return 2
    if pid == 'C15':
        # the same sweep in simulation against the modelled kernel (deterministic, replayable tapes)
        sim = run_sim_property('C15', tier, seed, embedded=True)
        if not isinstance(sim, dict):
            return sim
        sc = sim['ev']['coverage']
        extra.update(simulated_evaluations=sc['evaluations'], simulated_distinct_nontrivial=sc['distinct_nontrivial'], simulated_verdict_histogram=sc['histograms'].get('verdicts', {}))
        evaluations += sc['evaluations']; distinct += sc['distinct_nontrivial']
        samples += sc['samples'][:1]
        for v in sim['violations']:
            os.makedirs(f'{V}/replays/{pid}', exist_ok=True)
            path = f'{V}/replays/{pid}/sim_{hashlib.sha1(v["sig"].encode()).hexdigest()[:10]}.tape'
            open(path, 'wb').write(v['tape']); json.dump(dict(family=v.get('family'), sig=v['sig'], msg=v['msg']), open(path[:-5] + '.json', 'w'))
            open(path[:-5] + '.txt', 'w').write(v['dump'] + '\n' + v['msg'] + '\n')
            violations.append(dict(msg='[simulation] ' + v['msg'], case=None, artifact=path, source=v['source']))
    wall = time.time() - t0
    ev = dict(property_id=pid, tier=tier, seed=seed, level='exploration',
              coverage=dict(evaluations=evaluations + regress_n, distinct_nontrivial=distinct, rule=NATIVE_RULES[pid], samples=samples or ['(none)'],
                            exhaustive=(pid in ('C17', 'C18')), regression_cases_replayed=regress_n, **extra),
              assumptions=['C17/C18: the functions are pure, so the natively compiled sources (ASan+UBSan) are the code under test',
                           'C15: wall-clock behaviour of the host; a watchdog hit is re-run and only 3/3 hangs count'],
              wall_s=round(wall, 2), violations=len(violations))
    os.makedirs(f'{V}/evidence', exist_ok=True)
    json.dump(ev, open(f'{V}/evidence/{pid}.json', 'w'), indent=1)
    for e in [e for e in load_known(pid) if e.get('status') == 'open']:
        print(f"KNOWN-FINDING: property={pid} {e['what']}")
    if violations:
        os.makedirs(f'{V}/replays/{pid}', exist_ok=True)
        for i, v in enumerate(violations[:4]):
            if v.get('artifact') and v['artifact'].endswith('.tape'):
                path = v['artifact']
            elif v.get('artifact'):
                path = f'{V}/replays/{pid}/fuzz_{i}.bin'; shutil.copy(v['artifact'], path)
            else:
                path = f'{V}/replays/{pid}/case_{i}.case'; open(path, 'w').write(v['case'] or '')
            print(f"  violation from {v['source']}: {v['msg']}")
            print(f'VIOLATION property={pid} replay={path}')
        return 1
    print(f"OK property={pid} tier={tier} evaluations={ev['coverage']['evaluations']} distinct_nontrivial={distinct} wall={wall:.1f}s")
    return 0


def replay_native(pid, path):
    wdir = f'{WORK}/{pid}'
    native_build(pid)
    if path.endswith('.bin'):
        r = subprocess.run([f'{wdir}/{pid.lower()}_fuzz', path])
        if r.returncode != 0:
            print(f'VIOLATION property={pid} replay={path}'); return 1
        return 0
    r = subprocess.run(native_cmd(pid, wdir) + ['--replay', path])
    if r.returncode == 1:
        print(f'VIOLATION property={pid} replay={path}')
    return r.returncode

NATIVE = ('C15', 'C17', 'C18')


def main():
    args = sys.argv[1:]
    if not args:
        print(__doc__); return 2
    if args[0] == '--setup':
        ensure_driver()
        native_build_common()
        print('setup ok')
        return 0
    pid = args[0]
    tier = os.environ.get('VERIF_TIER', 'quick')
    rp = None
    i = 1
    while i < len(args):
        if args[i] == '--tier':
            tier = args[i + 1]; i += 2
        elif args[i] == '--replay':
            rp = args[i + 1]; i += 2
        else:
            print('unknown argument', args[i]); return 2
    seed = int(os.environ.get('VERIF_SEED', '1') or '1')
    os.makedirs(f'{WORK}/{pid}', exist_ok=True)
    if rp:
        if pid in NATIVE and not rp.endswith('.tape'):
            return replay_native(pid, rp)
        return replay(pid, rp)
    if pid in NATIVE:
        return run_native_property(pid, tier, seed)
    if pid in PROPS and 'sim' in PROPS[pid]:
        return run_sim_property(pid, tier, seed)
    print('unknown property', pid); return 2


if __name__ == '__main__':
    sys.exit(main())
