#!/usr/bin/env python3
"""Sensitivity sweep: applies hand-written single-site mutants of google/nsync (the ones DESIGN.md section 6
lists per property, plus memory-order weakenings) to /repo one at a time, runs the owning property's quick check,
and reverts.  A mutant is 'killed' if the check exits 1 with a VIOLATION line.  Results: work/mutants.json and a
markdown table on stdout.  Never leaves /repo modified.  usage: mutants.py [id-prefix ...]"""
import json, os, subprocess, sys, time

V = os.path.dirname(os.path.dirname(os.path.abspath(__file__)))
# a background run (vp run --with-repo) mutates its own snapshot of the repository, never /repo
REPO = os.environ.get('VP_RUN_REPO') or os.environ.get('VERIF_REPO') or '/repo'
M = [
 # (name, property, file, old, new)
 ('c01-rzero-no-wlock', 'C01', 'internal/common.h', '#define MU_RZERO_TO_ACQUIRE (MU_WLOCK | MU_WRITER_WAITING | MU_LONG_WAIT)', '#define MU_RZERO_TO_ACQUIRE (MU_WRITER_WAITING | MU_LONG_WAIT)'),
 ('c01-timeout-acquire-no-check', 'C01', 'internal/mu_wait.c', 'while ((old_word&(MU_WZERO_TO_ACQUIRE|MU_SPINLOCK)) != 0 ||', 'while ((old_word&(MU_WLOCK|MU_LONG_WAIT|MU_SPINLOCK)) != 0 ||'),
 ('c01-trylock-ignores-readers', 'C01', 'internal/mu.c', 'result = ((old_word & MU_WZERO_TO_ACQUIRE) == 0 &&', 'result = ((old_word & (MU_WLOCK|MU_LONG_WAIT)) == 0 &&'),
 ('c02-unlock-fast-ignores-waiting', 'C02', 'internal/mu.c', '} else if ((old_word & (MU_WAITING|MU_DESIG_WAKER)) == MU_WAITING ||\n\t\t\t   !ATM_CAS_REL (&mu->word, old_word, new_word)) {', '} else if (!ATM_CAS_REL (&mu->word, old_word, new_word)) {'),
 ('c02-lockslow-keeps-desig', 'C02', 'internal/mu.c', '(old_word|MU_SPINLOCK|long_wait|\n\t\t\t\t\t l_type->set_when_waiting) & ~(clear | MU_ALL_FALSE))) {', '(old_word|MU_SPINLOCK|long_wait|\n\t\t\t\t\t l_type->set_when_waiting) & ~(MU_ALL_FALSE))) {'),
 ('c02-unlockslow-clears-waiting', 'C02', 'internal/mu.c', 'if (nsync_dll_is_empty_ (mu->waiters)) {\n\t\t\t\t/* no waiters left */', 'if (1) {\n\t\t\t\t/* no waiters left */'),
 ('c03-unlock-cas-relaxed', 'C03', 'internal/mu.c', 'if (!ATM_CAS_REL (&mu->word, MU_WLOCK, 0)) {\n\t\tuint32_t old_word = ATM_LOAD (&mu->word);\n                /* Clear MU_ALL_FALSE', 'if (!ATM_CAS (&mu->word, MU_WLOCK, 0)) {\n\t\tuint32_t old_word = ATM_LOAD (&mu->word);\n                /* Clear MU_ALL_FALSE'),
 ('c03-lock-cas-relaxed', 'C03', 'internal/mu.c', 'void nsync_mu_lock (nsync_mu *mu) {\n\tIGNORE_RACES_START ();\n\tif (!ATM_CAS_ACQ (&mu->word, 0, MU_WADD_TO_ACQUIRE)) {', 'void nsync_mu_lock (nsync_mu *mu) {\n\tIGNORE_RACES_START ();\n\tif (!ATM_CAS (&mu->word, 0, MU_WADD_TO_ACQUIRE)) {'),
 ('c03-lockslow-cas-relaxed', 'C03', 'internal/mu.c', 'if (ATM_CAS_ACQ (&mu->word, old_word,\n\t\t\t\t\t (old_word+l_type->add_to_acquire) &', 'if (ATM_CAS (&mu->word, old_word,\n\t\t\t\t\t (old_word+l_type->add_to_acquire) &'),
 ('c03-waker-store-relaxed', 'C03', 'internal/mu.c', 'ATM_STORE_REL (&DLL_NSYNC_WAITER (p)->waiting, 0);', 'ATM_STORE (&DLL_NSYNC_WAITER (p)->waiting, 0);'),
 ('c03-sleeper-load-relaxed', 'C03', 'internal/mu.c', 'while (ATM_LOAD_ACQ (&w->nw.waiting) != 0) { /* acquire load */\n\t\t\t\tnsync_mu_semaphore_p (&w->sem);', 'while (ATM_LOAD (&w->nw.waiting) != 0) { /* acquire load */\n\t\t\t\tnsync_mu_semaphore_p (&w->sem);'),
 ('c03-once-store-relaxed', 'C03', 'internal/once.c', 'ATM_STORE_REL (once, 2);', 'ATM_STORE (once, 2);'),
 ('c03-once-load-relaxed', 'C03', 'internal/once.c', 'void nsync_run_once (nsync_once *once, void (*f) (void)) {\n\tuint32_t o;\n\tIGNORE_RACES_START ();\n\to = ATM_LOAD_ACQ (once);', 'void nsync_run_once (nsync_once *once, void (*f) (void)) {\n\tuint32_t o;\n\tIGNORE_RACES_START ();\n\to = ATM_LOAD (once);'),
 ('c03-note-store-relaxed', 'C03', 'internal/note.c', 'ATM_STORE_REL (&n->notified, 1);\n\t\twhile ((p = nsync_dll_first_ (n->waiters)) != NULL) {', 'ATM_STORE (&n->notified, 1);\n\t\twhile ((p = nsync_dll_first_ (n->waiters)) != NULL) {'),
 ('c03-counter-cas-relaxed', 'C03', 'internal/counter.c', '} while (!ATM_CAS_RELACQ (&c->value, value, value+delta));', '} while (!ATM_CAS (&c->value, value, value+delta));'),
 ('c03-cv-waker-store-relaxed', 'C03', 'internal/cv.c', '\tATM_STORE_REL (&nw->waiting, 0); /* release store */\n\tnsync_mu_semaphore_v (sem);', '\tATM_STORE (&nw->waiting, 0); /* release store */\n\tnsync_mu_semaphore_v (sem);'),
 ('c03-atomic-h-cas-acq-weak', 'C03', 'platform/gcc_new/atomic.h', '__ATOMIC_ACQUIRE, __ATOMIC_RELAXED));\n}\nstatic __inline__ int atm_cas_rel_u32_', '__ATOMIC_RELAXED, __ATOMIC_RELAXED));\n}\nstatic __inline__ int atm_cas_rel_u32_'),
 ('c03-spinlock-release-relaxed', 'C03', 'internal/mu.c', 'while (!ATM_CAS_REL (&mu->word, old_word, old_word & ~MU_SPINLOCK)) {', 'while (!ATM_CAS (&mu->word, old_word, old_word & ~MU_SPINLOCK)) {'),
 ('c04-timeout-ignores-remove-count', 'C04', 'internal/cv.c', 'if (remove_count == ATM_LOAD (&w->remove_count)) {', 'if (1) {'),
 ('c04-signal-wakes-first-reader-only', 'C04', 'internal/cv.c', 'if ((first_nw->flags & NSYNC_WAITER_FLAG_MUCV) != 0 &&\n\t\t\t    DLL_WAITER (first)->l_type == nsync_reader_type_) {', 'if (0 && (first_nw->flags & NSYNC_WAITER_FLAG_MUCV) != 0 &&\n\t\t\t    DLL_WAITER (first)->l_type == nsync_reader_type_) {'),
 ('c04-nonempty-cleared-on-dequeue', 'C04', 'internal/cv.c', '\tif (nsync_dll_is_empty_ (pcv->waiters)) {\n\t\told_word &= ~(CV_NON_EMPTY);\n\t}\n\t/* Release spinlock. */\n\tATM_STORE_REL (&pcv->word, old_word); /* release store */\n\treturn (was_queued);', '\told_word &= ~(CV_NON_EMPTY);\n\t/* Release spinlock. */\n\tATM_STORE_REL (&pcv->word, old_word); /* release store */\n\treturn (was_queued);'),
 ('c05-outcome-without-lock', 'C05', 'internal/mu_wait.c', 'if (have_lock) { /* Successful acquire. */\n\t\t\t\t\t\toutcome = sem_outcome;\n\t\t\t\t\t}', 'outcome = sem_outcome;'),
 ('c05-no-condition-trumps', 'C05', 'internal/mu_wait.c', 'if (condition_is_true) {\n\t\toutcome = 0; /* condition is true trumps other outcomes. */\n\t}', ''),
 ('c05-deadline-is-nearer-inverted', 'C05', 'internal/sem_wait.c', 'if (nsync_time_cmp (abs_deadline, cancel_time) < 0) {', 'if (nsync_time_cmp (abs_deadline, cancel_time) > 0) {'),
 ('c05-ltype-always-writer', 'C05', 'internal/mu_wait.c', '\tif ((old_word & MU_RHELD_IF_NON_ZERO) != 0) {\n\t\tl_type = nsync_reader_type_;\n\t}\n\n\tfirst_wait = 1;', '\n\tfirst_wait = 1;'),
 ('c06-skip-one-too-many', 'C06', 'internal/mu.c', 'next = nsync_dll_next_ (waiter_list, last_with_same_condition);\n\t} else {', 'next = nsync_dll_next_ (waiter_list, nsync_dll_next_ (waiter_list, last_with_same_condition) != NULL ? nsync_dll_next_ (waiter_list, last_with_same_condition) : last_with_same_condition);\n\t} else {'),
 ('c06-allfalse-not-cleared-by-unlock', 'C06', 'internal/mu.c', 'uint32_t new_word = (old_word - MU_WLOCK) & ~MU_ALL_FALSE;', 'uint32_t new_word = (old_word - MU_WLOCK);'),
 ('c06-eq-ignored', 'C06', 'internal/common.h', '((a_)->eq != NULL && (*(a_)->eq) ((a_)->v, (b_)->v))))', '((a_)->eq != NULL)))'),
 ('c07-cas-to-load-store', 'C07', 'internal/once.c', 'while (o == 0 && !ATM_CAS_ACQ (once, 0, 1)) {\n\t\t\to = ATM_LOAD (once);\n\t\t}', 'if (o == 0) { ATM_STORE (once, 1); }'),
 ('c07-store2-before-call', 'C07', 'internal/once.c', '\t\t\tif (f != NULL) {\n\t\t\t\t(*f) ();', '\t\t\tATM_STORE_REL (once, 2);\n\t\t\tif (f != NULL) {\n\t\t\t\t(*f) ();'),
 ('c07-loser-tests-nonzero', 'C07', 'internal/once.c', 'while (ATM_LOAD_ACQ (once) != 2) {\n\t\t\tif (s != NULL) {', 'while (ATM_LOAD_ACQ (once) == 0) {\n\t\t\tif (s != NULL) {'),
 ('c08-link-under-notified-parent', 'C08', 'internal/note.c', 'if (nsync_time_cmp (parent_time, nsync_time_zero) > 0) {\n\t\t\t\tn->parent = parent;', 'if (1) {\n\t\t\t\tn->parent = parent;'),
 ('c08-expiry-max', 'C08', 'internal/note.c', 'if (nsync_time_cmp (parent_time, abs_deadline) < 0) {', 'if (nsync_time_cmp (parent_time, abs_deadline) > 0) {'),
 ('c08-notified-after-waking', 'C08', 'internal/note.c', '\t\tATM_STORE_REL (&n->notified, 1);\n\t\twhile ((p = nsync_dll_first_ (n->waiters)) != NULL) {', '\t\twhile ((p = nsync_dll_first_ (n->waiters)) != NULL) {'),
 ('c09-free-no-wait-children', 'C09', 'internal/note.c', '\t\tnsync_mu_unlock (&child->note_mu);\n\t}\n\tWAIT_FOR_NO_CHILDREN (no_children, n);\n\tif (parent != NULL) {\n\t\tparent->children = nsync_dll_remove_ (parent->children,\n\t\t\t\t\t\t      &n->parent_child_link);\n\t\tWAKEUP_NO_CHILDREN (parent);\n\t\tn->parent = NULL;\n\t\tnsync_mu_unlock (&parent->note_mu);', '\t\tnsync_mu_unlock (&child->note_mu);\n\t}\n\tif (parent != NULL) {\n\t\tparent->children = nsync_dll_remove_ (parent->children,\n\t\t\t\t\t\t      &n->parent_child_link);\n\t\tWAKEUP_NO_CHILDREN (parent);\n\t\tn->parent = NULL;\n\t\tnsync_mu_unlock (&parent->note_mu);'),
 ('c09-free-no-reparent', 'C09', 'internal/note.c', '\t\t\t\tif (parent != NULL) {\n\t\t\t\t\tchild->parent = parent;\n\t\t\t\t\tparent->children = nsync_dll_make_last_in_list_ (\n\t\t\t\t\t\tparent->children, &child->parent_child_link);\n\t\t\t\t} else {\n\t\t\t\t\tchild->parent = NULL;\n\t\t\t\t}', '\t\t\t\tchild->parent = NULL;'),
 ('c10-add-without-lock', 'C10', 'internal/counter.c', '\t\tnsync_mu_lock (&c->counter_mu);\n\t\tdo {\n\t\t\tvalue = ATM_LOAD (&c->value);', '\t\tdo {\n\t\t\tvalue = ATM_LOAD (&c->value);'),
 ('c10-wake-first-only', 'C10', 'internal/counter.c', 'while ((p = nsync_dll_first_ (c->waiters)) != NULL) {', 'if ((p = nsync_dll_first_ (c->waiters)) != NULL) {'),
 ('c10-enqueue-stale-value', 'C10', 'internal/counter.c', '\tnsync_mu_lock (&c->counter_mu);\n\tvalue = ATM_LOAD_ACQ (&c->value);\n\tif (value != 0) {\n\t\tc->waiters = nsync_dll_make_last_in_list_', '\tvalue = ATM_LOAD_ACQ (&c->value);\n\tnsync_yield_ ();\n\tnsync_mu_lock (&c->counter_mu);\n\tif (value != 0) {\n\t\tc->waiters = nsync_dll_make_last_in_list_'),
 ('c11-dequeue-off-by-one', 'C11', 'internal/wait.c', 'for (j = 0; j != i; j++) {\n\t\t\tint was_still_enqueued =', 'for (j = 0; j + 1 < i; j++) {\n\t\t\tint was_still_enqueued ='),
 ('c11-free-before-dequeue', 'C11', 'internal/wait.c', '\t\tfor (j = 0; j != i; j++) {\n\t\t\tint was_still_enqueued =', '\t\tif (nw != nw_set) { free (nw); nw = nw_set; }\n\t\tfor (j = 0; j != i; j++) {\n\t\t\tint was_still_enqueued ='),
 ('c11-unlock-before-enqueue', 'C11', 'internal/wait.c', '\t\tfor (i = 0; i != count && enqueued; i++) {\n\t\t\tnw[i].tag', '\t\tif (mu != NULL) { (*unlock) (mu); unlocked = 1; }\n\t\tfor (i = 0; i != count && enqueued; i++) {\n\t\t\tnw[i].tag'),
 ('c12-timeout-without-clock', 'C12', 'platform/linux/src/nsync_semaphore_futex.c', 'if (futex_result == -1 && errno == ETIMEDOUT &&\n\t\t\t    nsync_time_cmp (abs_deadline, nsync_time_now ()) <= 0) {', 'if (futex_result == -1 && errno == ETIMEDOUT) {'),
 ('c12-v-without-wake', 'C12', 'platform/linux/src/nsync_semaphore_futex.c', '\tASSERT (futex (&f->i, FUTEX_WAKE_, 1, NULL, NULL, 0) >= 0);', '\tif (old_value != 0) ASSERT (futex (&f->i, FUTEX_WAKE_, 1, NULL, NULL, 0) >= 0);'),
 ('c12-p-without-cas', 'C12', 'platform/linux/src/nsync_semaphore_futex.c', '} while (i == 0 || !ATM_CAS_ACQ ((nsync_atomic_uint32_ *) &f->i, i, i-1));\n}', '} while (i == 0);\n\tATM_STORE ((nsync_atomic_uint32_ *) &f->i, i-1);\n}'),
 ('c13-unlock-slow-rereads-word', 'C13', 'internal/mu.c', '\t\t\t/* Wake the waiters. */\n\t\t\tfor (p = nsync_dll_first_ (wake); p != NULL; p = next) {', '\t\t\t/* Wake the waiters. */\n\t\t\t(void) ATM_LOAD (&mu->word);\n\t\t\tfor (p = nsync_dll_first_ (wake); p != NULL; p = next) {'),
 ('c13-unlock-fast-rereads-word', 'C13', 'internal/mu.c', '\tif (!ATM_CAS_REL (&mu->word, MU_WLOCK, 0)) {\n\t\tuint32_t old_word = ATM_LOAD (&mu->word);\n                /* Clear MU_ALL_FALSE', '\tif (ATM_CAS_REL (&mu->word, MU_WLOCK, 0)) {\n\t\t(void) ATM_LOAD (&mu->word);\n\t} else {\n\t\tuint32_t old_word = ATM_LOAD (&mu->word);\n                /* Clear MU_ALL_FALSE'),
 ('c14-no-long-wait', 'C14', 'internal/mu.c', 'if (wait_count == LONG_WAIT_THRESHOLD) { /* repeatedly woken */', 'if (0 && wait_count == LONG_WAIT_THRESHOLD) { /* repeatedly woken */'),
 ('c14-long-wait-not-in-wzero', 'C14', 'internal/common.h', '#define MU_WZERO_TO_ACQUIRE (MU_ANY_LOCK | MU_LONG_WAIT)', '#define MU_WZERO_TO_ACQUIRE (MU_ANY_LOCK)'),
 ('c14-requeue-at-back', 'C14', 'internal/mu.c', 'if (wait_count == 0) {\n\t\t\t\t/* first wait goes to end of queue */', 'if (1) {\n\t\t\t\t/* first wait goes to end of queue */'),
 ('c16-emit-overflow-off-by-one', 'C16', 'internal/debug.c', 'char *p = &b->start[b->len];  /* past end */', 'char *p = &b->start[b->len + 1];  /* past end */'),
 ('c16-emit-no-ellipsis-guard', 'C16', 'internal/debug.c', 'while (s > suffix && p > b->start) {', 'while (s > suffix) {'),
 ('c17-remove-keeps-prev', 'C17', 'internal/dll.c', '\te->next->prev = e->prev;\n\te->prev->next = e->next;\n\te->next = e;\n\te->prev = e;\n\treturn (list);', '\te->next->prev = e->prev;\n\te->prev->next = e->next;\n\te->next = e;\n\treturn (list);'),
 ('c17-prev-of-first', 'C17', 'internal/dll.c', 'if (e != list->next) {', 'if (e != list) {'),
 ('c18-carry-gt', 'C18', 'platform/posix/src/time_rep.c', 'if (a.tv_nsec >= NSYNC_NS_IN_S_) {', 'if (a.tv_nsec > NSYNC_NS_IN_S_) {'),
 ('c18-us-mod', 'C18', 'internal/time_internal.c', 'return (nsync_time_s_ns (s, 1000 * (us % (1000 * 1000))));', 'return (nsync_time_s_ns (s, 1000 * (us % 1000)));'),
 ('c18-cpp-borrow', 'C18', 'platform/c++11/src/time_rep_timespec.cc', '\t\ta.tv_nsec += NSYNC_NS_IN_S_;\n\t\ta.tv_sec--;', '\t\ta.tv_nsec += NSYNC_NS_IN_S_;'),
 ('c19-note-no-null-check', 'C19', 'internal/note.c', '\tnsync_note n = (nsync_note) malloc (sizeof (*n));\n\tif (n != NULL) {', '\tnsync_note n = (nsync_note) malloc (sizeof (*n));\n\tif (1) {'),
 ('c19-counter-memset-first', 'C19', 'internal/counter.c', '\tnsync_counter c = (nsync_counter) malloc (sizeof (*c));\n\tif (c != NULL) {', '\tnsync_counter c = (nsync_counter) malloc (sizeof (*c));\n\tmemset ((void *) c, 0, sizeof (*c));\n\tif (c != NULL) {'),
 ('c03-ptw-once-store-relaxed', 'C03', 'platform/posix/src/per_thread_waiter.c', '\t\t\tpthread_key_create (&waiter_key, dest);\n\t\t\tATM_STORE_REL (ponce, 2);', '\t\t\tpthread_key_create (&waiter_key, dest);\n\t\t\tATM_STORE (ponce, 2);'),
 ('c03-ptw-once-load-relaxed', 'C03', 'platform/posix/src/per_thread_waiter.c', '\tuint32_t o = ATM_LOAD_ACQ (ponce);\n\tif (o != 2) {', '\tuint32_t o = ATM_LOAD (ponce);\n\tif (o != 2) {'),
 ('c13-ptw-key-published-early', 'C13', 'platform/posix/src/per_thread_waiter.c', '\t\t\tpthread_key_create (&waiter_key, dest);\n\t\t\tATM_STORE_REL (ponce, 2);', '\t\t\tATM_STORE_REL (ponce, 2);\n\t\t\tpthread_key_create (&waiter_key, dest);'),
 ('c15-timepoint-truncates', 'C15', 'platform/c++11/src/time_rep_timespec.cc', 'if (ts.tv_nsec < 0) {', 'if (0 && ts.tv_nsec < 0) {'),
 ('c15-futex-no-clamp', 'C15', 'platform/linux/src/nsync_semaphore_futex.c', 'if (ts_buf.tv_sec < 0) {', 'if (0 && ts_buf.tv_sec < 0) {'),
]


def sh(cmd, **kw):
    return subprocess.run(cmd, shell=True, stdout=subprocess.PIPE, stderr=subprocess.STDOUT, text=True, **kw)


def main():
    if sh(f'git -C {REPO} diff --quiet').returncode != 0:
        print('/repo has uncommitted changes; refusing'); return 2
    want = sys.argv[1:]
    results = []
    for (name, prop, path, old, new) in M:
        if want and not any(name.startswith(w) or prop == w for w in want):
            continue
        full = os.path.join(REPO, path)
        src = open(full).read()
        if src.count(old) != 1:
            results.append(dict(name=name, prop=prop, status='pattern-not-unique', n=src.count(old)))
            print(f'{name}: pattern occurs {src.count(old)} times, skipped'); continue
        open(full, 'w').write(src.replace(old, new, 1))
        t0 = time.time()
        try:
            r = sh(f'timeout 1500 python3 {V}/tools/check.py {prop} --tier quick', env=dict(os.environ, VERIF_REPO=REPO, VERIF_SEED=os.environ.get('VERIF_SEED', '1')))
        finally:
            open(full, 'w').write(src)
        dt = time.time() - t0
        viol = [l for l in r.stdout.splitlines() if 'violation' in l]
        status = 'killed' if r.returncode == 1 else ('survived' if r.returncode == 0 else f'check-broken(rc={r.returncode})')
        sig = viol[0].strip()[:140] if viol else ''
        if status.startswith('check-broken'):
            sig = r.stdout.strip().splitlines()[-1][:140] if r.stdout.strip() else ''
        results.append(dict(name=name, prop=prop, status=status, seconds=round(dt, 1), first=sig))
        print(f'{name:40s} {prop} {status:10s} {dt:6.1f}s  {sig}', flush=True)
    sh(f'git -C {REPO} checkout -- .')
    os.makedirs(f'{V}/work', exist_ok=True)
    json.dump(results, open(f'{V}/work/mutants.json', 'w'), indent=1)
    k = sum(1 for r in results if r['status'] == 'killed'); n = sum(1 for r in results if r['status'] in ('killed', 'survived'))
    print(f'killed {k} of {n}')
    return 0


if __name__ == '__main__':
    sys.exit(main())
