#!/usr/bin/env python3
"""Re-validate the regression tapes: each must still FAIL on the tree just before its repair (the harness changes the
sequence of scheduling points whenever instrumented code paths change, so old tapes can silently stop reproducing).
usage: revalidate_regress.py [--regenerate]   (creates scratch worktrees under /tmp/rv_*, removes them afterwards)"""
import glob, json, os, re, subprocess, sys, shutil
V = os.path.dirname(os.path.dirname(os.path.abspath(__file__)))
FIX = [  # (glob under regress/, fix commit, signature regex of the defect)
 ('C02/s7_*', 'a595176', r'lock-stranded|reacquire-stranded|livelock'),
 ('C02/s8_*', 'revert:e57970f', r'lock-stranded|reacquire-stranded'),   # on the tree before it, later-repaired cv defects crash first
 ('C03/s4_*', 'c56d85f', r'race:'),
 ('C04/s4_*', 'c56d85f', r'signal-lost|broadcast-missed|crash|deadstack|woken'),
 ('C11/s4_*', 'c56d85f', r'.'),
 ('C13/s4_*', 'c56d85f', r'deadstack|freed|crash'),
 ('C13/s3s4_*', 'ba92e2a', r'deadstack|freed|crash'),
 ('C08/expiry_of_note_born_expired*', '2d474a3', r'C08:expiry'),
 ('C08/expiry_of_child_born*', 'be91c46', r'C08:expiry'),
 ('C09/s6_*', 'aed38e3', r'C09:deadlock'),
 ('C16/s1_*', '7d4dfcf', r'.'),
]
def sh(cmd, **kw):
    return subprocess.run(cmd, shell=True, stdout=subprocess.PIPE, stderr=subprocess.STDOUT, text=True, **kw)
regen = '--regenerate' in sys.argv
bad = []
used = set()
for pat, fix, sigre in FIX:
    wt = f'/tmp/rv_{fix.replace(":", "_")}'
    if not os.path.isdir(wt):
        if fix.startswith('revert:'):
            # the current tree minus this one repair
            sh(f'git -C /repo worktree add -q --detach {wt} HEAD')
            r = sh(f'git -C {wt} revert --no-commit {fix[7:]}')
            if r.returncode != 0:
                print('cannot revert', fix, r.stdout[-300:]); continue
        else:
            sh(f'git -C /repo worktree add -q --detach {wt} {fix}^')
    for tape in sorted(glob.glob(f'{V}/regress/{pat}.tape')):
        pid = tape.split('/')[-2]
        r = sh(f'python3 {V}/tools/check.py {pid} --replay {tape}', env=dict(os.environ, VERIF_REPO=wt))
        ok = r.returncode == 1
        line = [l for l in r.stdout.splitlines() if l.startswith('REPLAY')][-1:] or ['?']
        print(('FAILS-AS-IT-SHOULD ' if ok else 'NO-LONGER-REPRODUCES ') + os.path.relpath(tape, V) + ' @' + fix + '  ' + line[0][:120], flush=True)
        if not ok:
            bad.append((tape, pid, fix, sigre, wt))
if regen:
    for tape, pid, fix, sigre, wt in bad:
        shutil.rmtree(f'{V}/replays/{pid}', ignore_errors=True)
        r = sh(f'python3 {V}/tools/check.py {pid}', env=dict(os.environ, VERIF_REPO=wt))
        cands = []
        for m in sorted(glob.glob(f'{V}/replays/{pid}/*.json')):
            d = json.load(open(m))
            if re.search(sigre, d.get('sig', '')) and os.path.exists(m[:-5] + '.tape') and '(gcc_new)' in d.get('source', '(gcc_new)'):
                if open(m[:-5] + '.tape', 'rb').read() not in used:
                    cands.append((m, d))
        if not cands:
            print(f'could not regenerate {os.path.relpath(tape, V)}: no violation matching /{sigre}/ on {fix}^ ({[l for l in r.stdout.splitlines() if "violation" in l][:3]})'); continue
        m, d = cands[0]
        used.add(open(m[:-5] + '.tape', 'rb').read())
        shutil.copy(m[:-5] + '.tape', tape)
        meta = tape[:-5] + '.json'
        old = json.load(open(meta)) if os.path.exists(meta) else {}
        old.update(family=d.get('family'), sig=d.get('sig'), msg=d.get('msg'), regenerated_on=f'{fix}^')
        json.dump(old, open(meta, 'w'), indent=1)
        r2 = sh(f'python3 {V}/tools/check.py {pid} --replay {tape}', env=dict(os.environ, VERIF_REPO=wt))
        print(f'regenerated {os.path.relpath(tape, V)}: sig={d.get("sig")} fails on {fix}^: {r2.returncode == 1}', flush=True)
for w in glob.glob('/tmp/rv_*'):
    sh(f'git -C /repo worktree remove --force {w}')
sh('git -C /repo worktree prune')
print('stale tapes:', len(bad))
