// C17: the waiter-queue list operations implement a sequence.
// The real /repo/internal/dll.c (compiled natively as C with ASan+UBSan) is driven by
// (a) an exhaustive enumeration of the reachable model-state graph over 5 elements and 2 lists,
// (b) rapidcheck-generated operation sequences (8 elements, 3 lists, up to 200 operations),
// (c) the same interpreter as a libFuzzer target (c17_fuzz, -DC17_FUZZ),
// and compared after EVERY operation with a reference model made of plain arrays.
#include <stdint.h>
#include <stdio.h>
#include <stdlib.h>
#include <string.h>
#include <algorithm>
#include <map>
#include <set>
#include <string>
#include <vector>

extern "C" {
typedef struct nsync_dll_element_s_ { struct nsync_dll_element_s_ *next, *prev; void *container; } nsync_dll_element_;
typedef nsync_dll_element_ *nsync_dll_list_;
void nsync_dll_init_ (nsync_dll_element_ *e, void *container);
int nsync_dll_is_empty_ (nsync_dll_list_ list);
nsync_dll_list_ nsync_dll_remove_ (nsync_dll_list_ list, nsync_dll_element_ *e);
void nsync_dll_splice_after_ (nsync_dll_element_ *p, nsync_dll_element_ *n);
nsync_dll_list_ nsync_dll_make_first_in_list_ (nsync_dll_list_ list, nsync_dll_element_ *e);
nsync_dll_list_ nsync_dll_make_last_in_list_ (nsync_dll_list_ list, nsync_dll_element_ *e);
nsync_dll_element_ *nsync_dll_first_ (nsync_dll_list_ list);
nsync_dll_element_ *nsync_dll_last_ (nsync_dll_list_ list);
nsync_dll_element_ *nsync_dll_next_ (nsync_dll_list_ list, nsync_dll_element_ *e);
nsync_dll_element_ *nsync_dll_prev_ (nsync_dll_list_ list, nsync_dll_element_ *e);
}

static const int MAXE = 8, MAXL = 3;

// ---------------------------------------------------------------- model: plain arrays
struct Model {
	int ne, nl;
	std::vector<std::vector<int>> lists;   // sequences, first .. last
	std::vector<std::vector<int>> loose;   // cyclic rings that belong to no list (a removed element is a ring of one)
	bool operator< (const Model &o) const { return key () < o.key (); }
	std::string key () const {
		std::string k;
		for (auto &l : lists) { for (int e : l) k += (char) ('a' + e); k += '|'; }
		// loose rings: canonical rotation (smallest element first), sorted
		std::vector<std::string> rs;
		for (auto r : loose) {
			size_t m = std::min_element (r.begin (), r.end ()) - r.begin ();
			std::rotate (r.begin (), r.begin () + m, r.end ());
			std::string s; for (int e : r) s += (char) ('a' + e);
			rs.push_back (s);
		}
		std::sort (rs.begin (), rs.end ());
		for (auto &s : rs) { k += s; k += ','; }
		return k;
	}
	int list_of (int e) const { for (int l = 0; l < nl; l++) for (int x : lists[l]) if (x == e) return l; return -1; }
	int ring_of (int e) const { for (size_t r = 0; r < loose.size (); r++) for (int x : loose[r]) if (x == e) return (int) r; return -1; }
	// the loose ring containing e, rotated to start at e, removed from loose
	std::vector<int> take_ring (int e) {
		int r = ring_of (e);
		std::vector<int> v = loose[r];
		loose.erase (loose.begin () + r);
		size_t i = std::find (v.begin (), v.end (), e) - v.begin ();
		std::rotate (v.begin (), v.begin () + i, v.end ());
		return v;
	}
};

enum OpKind { OP_MAKE_FIRST, OP_MAKE_LAST, OP_REMOVE, OP_SPLICE, OP_NKINDS };
struct Op { int kind, l, e, p; };
static std::string op_str (const Op &o) {
	char b[80];
	switch (o.kind) {
	case OP_MAKE_FIRST: snprintf (b, sizeof b, "make_first(L%d,%c)", o.l, 'a' + o.e); break;
	case OP_MAKE_LAST: snprintf (b, sizeof b, "make_last(L%d,%c)", o.l, 'a' + o.e); break;
	case OP_REMOVE: snprintf (b, sizeof b, "remove(L%d,%c)", o.l, 'a' + o.e); break;
	default: snprintf (b, sizeof b, "splice_after(%c,%c)", 'a' + o.p, 'a' + o.e); break;
	}
	return b;
}

// preconditions from dll.h: an element made first/last is not in the list (we require it to be in a loose
// ring, so that no other list head is invalidated); splice joins two different rings, the second one loose.
static bool legal (const Model &m, const Op &o) {
	switch (o.kind) {
	case OP_MAKE_FIRST: case OP_MAKE_LAST: return m.ring_of (o.e) >= 0;
	case OP_REMOVE: return m.list_of (o.e) == o.l;
	default:
		if (o.p == o.e || m.ring_of (o.e) < 0) return false;
		if (m.ring_of (o.p) >= 0) return m.ring_of (o.p) != m.ring_of (o.e);
		return true;   // p is in some list, e is loose
	}
}
static void model_apply (Model &m, const Op &o) {
	switch (o.kind) {
	case OP_MAKE_FIRST: { auto r = m.take_ring (o.e); r.insert (r.end (), m.lists[o.l].begin (), m.lists[o.l].end ()); m.lists[o.l] = r; break; }
	case OP_MAKE_LAST: {
		// e's ring, ordered so that e comes last, is appended
		auto r = m.take_ring (o.e);
		std::rotate (r.begin (), r.begin () + 1, r.end ());
		m.lists[o.l].insert (m.lists[o.l].end (), r.begin (), r.end ());
		break;
	}
	case OP_REMOVE: {
		auto &l = m.lists[o.l];
		l.erase (std::find (l.begin (), l.end (), o.e));
		m.loose.push_back ({ o.e });
		break;
	}
	default: {
		auto r = m.take_ring (o.e);
		int pr = m.ring_of (o.p);
		if (pr >= 0) {
			auto &v = m.loose[pr];
			size_t i = std::find (v.begin (), v.end (), o.p) - v.begin ();
			v.insert (v.begin () + i + 1, r.begin (), r.end ());
		} else {
			auto &l = m.lists[m.list_of (o.p)];
			size_t i = std::find (l.begin (), l.end (), o.p) - l.begin ();
			// after the last element cyclically means: in front of the first (the head still points at p)
			if (i + 1 == l.size ()) l.insert (l.begin (), r.begin (), r.end ());
			else l.insert (l.begin () + i + 1, r.begin (), r.end ());
		}
		break;
	}
	}
}

// ---------------------------------------------------------------- the real thing
struct Real {
	nsync_dll_element_ el[MAXE];
	nsync_dll_list_ head[MAXL];
	int tag[MAXE];
	void init (int ne, int nl) {
		for (int i = 0; i < ne; i++) { tag[i] = i; nsync_dll_init_ (&el[i], &tag[i]); }
		for (int l = 0; l < nl; l++) head[l] = NULL;
	}
	int idx (nsync_dll_element_ *e) { return (int) (e - el); }
	void apply (const Op &o) {
		switch (o.kind) {
		case OP_MAKE_FIRST: head[o.l] = nsync_dll_make_first_in_list_ (head[o.l], &el[o.e]); break;
		case OP_MAKE_LAST: head[o.l] = nsync_dll_make_last_in_list_ (head[o.l], &el[o.e]); break;
		case OP_REMOVE: head[o.l] = nsync_dll_remove_ (head[o.l], &el[o.e]); break;
		default: nsync_dll_splice_after_ (&el[o.p], &el[o.e]); break;
		}
	}
};

static std::string g_why;
static bool compare (Real &r, const Model &m) {
	char b[200];
	for (int l = 0; l < m.nl; l++) {
		const auto &s = m.lists[l];
		if ((nsync_dll_is_empty_ (r.head[l]) != 0) != s.empty ()) { snprintf (b, sizeof b, "is_empty(L%d) wrong", l); g_why = b; return false; }
		// forwards
		std::vector<int> f;
		for (nsync_dll_element_ *p = nsync_dll_first_ (r.head[l]); p != NULL; p = nsync_dll_next_ (r.head[l], p)) {
			if (p < r.el || p >= r.el + m.ne) { g_why = "forward traversal left the element array"; return false; }
			f.push_back (r.idx (p));
			if (f.size () > (size_t) m.ne + 1) { g_why = "forward traversal does not terminate"; return false; }
		}
		if (f != s) { snprintf (b, sizeof b, "forward traversal of L%d differs from the model", l); g_why = b; return false; }
		// backwards
		std::vector<int> bk;
		if (!s.empty ()) {
			for (nsync_dll_element_ *p = nsync_dll_last_ (r.head[l]); p != NULL; p = nsync_dll_prev_ (r.head[l], p)) {
				if (p < r.el || p >= r.el + m.ne) { g_why = "backward traversal left the element array"; return false; }
				bk.push_back (r.idx (p));
				if (bk.size () > (size_t) m.ne + 1) { g_why = "backward traversal does not terminate"; return false; }
			}
		} else if (nsync_dll_last_ (r.head[l]) != NULL) { g_why = "last of an empty list is not NULL"; return false; }
		std::reverse (bk.begin (), bk.end ());
		if (bk != s) { snprintf (b, sizeof b, "backward traversal of L%d differs from the model", l); g_why = b; return false; }
	}
	for (const auto &ring : m.loose) {
		// cyclic order through next, and through prev
		size_t n = ring.size ();
		for (size_t i = 0; i < n; i++) {
			nsync_dll_element_ *e = &r.el[ring[i]];
			if (e->next != &r.el[ring[(i + 1) % n]]) { snprintf (b, sizeof b, "loose ring: next of %c wrong", 'a' + ring[i]); g_why = b; return false; }
			if (e->prev != &r.el[ring[(i + n - 1) % n]]) { snprintf (b, sizeof b, "loose ring: prev of %c wrong", 'a' + ring[i]); g_why = b; return false; }
			if (e->container != &r.tag[ring[i]]) { g_why = "container pointer changed"; return false; }
		}
	}
	return true;
}

static Model initial (int ne, int nl) {
	Model m; m.ne = ne; m.nl = nl; m.lists.assign (nl, {});
	for (int i = 0; i < ne; i++) m.loose.push_back ({ i });
	return m;
}

// run a sequence; returns index of the first failing op or -1
static int run_sequence (int ne, int nl, const std::vector<Op> &ops, bool *any_nontrivial) {
	Real r; r.init (ne, nl);
	Model m = initial (ne, nl);
	if (!compare (r, m)) return 0;
	for (size_t i = 0; i < ops.size (); i++) {
		if (!legal (m, ops[i])) continue;
		if (any_nontrivial && (ops[i].kind == OP_SPLICE || (ops[i].kind == OP_REMOVE && m.lists[ops[i].l].size () > 1))) *any_nontrivial = true;
		model_apply (m, ops[i]);
		r.apply (ops[i]);
		if (!compare (r, m)) return (int) i;
	}
	return -1;
}

static Op decode_op (int ne, int nl, unsigned a, unsigned b, unsigned c, unsigned d) {
	Op o; o.kind = (int) (a % OP_NKINDS); o.l = (int) (b % (unsigned) nl); o.e = (int) (c % (unsigned) ne); o.p = (int) (d % (unsigned) ne);
	return o;
}

#if defined(C17_FUZZ)
extern "C" int LLVMFuzzerTestOneInput (const uint8_t *data, size_t size) {
	std::vector<Op> ops;
	for (size_t i = 0; i + 2 < size; i += 3) ops.push_back (decode_op (MAXE, MAXL, data[i], data[i] >> 4, data[i + 1], data[i + 2]));
	int f = run_sequence (MAXE, MAXL, ops, NULL);
	if (f >= 0) {
		fprintf (stderr, "C17 violation at op %d (%s): %s\n", f, op_str (ops[(size_t) f]).c_str (), g_why.c_str ());
		__builtin_trap ();
	}
	return 0;
}
#else
#include <rapidcheck.h>
#include <time.h>

static std::string json_escape (const std::string &s) { std::string o; for (char c : s) { if (c == '"' || c == '\\') { o += '\\'; o += c; } else if (c == '\n') o += "\\n"; else o += c; } return o; }

int main (int argc, char **argv) {
	const char *out = NULL, *replay = NULL, *failout = NULL; long cases = 20000; unsigned long seed = 1; int exhaustive_ne = 5;
	for (int i = 1; i < argc; i++) {
		std::string a = argv[i];
		if (a == "--out") out = argv[++i]; else if (a == "--cases") cases = atol (argv[++i]); else if (a == "--seed") seed = strtoul (argv[++i], 0, 0);
		else if (a == "--replay") replay = argv[++i]; else if (a == "--fail-out") failout = argv[++i]; else if (a == "--exhaustive-elements") exhaustive_ne = atoi (argv[++i]);
	}
	struct timespec t0; clock_gettime (CLOCK_MONOTONIC, &t0);
	if (replay) {
		// replay file: lines "kind l e p"
		FILE *f = fopen (replay, "r"); if (!f) { perror (replay); return 2; }
		int ne, nl; std::vector<Op> ops; Op o;
		if (fscanf (f, "%d %d", &ne, &nl) != 2) return 2;
		while (fscanf (f, "%d %d %d %d", &o.kind, &o.l, &o.e, &o.p) == 4) ops.push_back (o);
		fclose (f);
		int r = run_sequence (ne, nl, ops, NULL);
		for (auto &x : ops) printf (" %s", op_str (x).c_str ());
		printf ("\n");
		if (r >= 0) { printf ("REPLAY property=C17 FAILS at op %d (%s): %s\n", r, op_str (ops[(size_t) r]).c_str (), g_why.c_str ()); return 1; }
		printf ("REPLAY property=C17 passes\n");
		return 0;
	}

	// ---- (a) exhaustive enumeration of the reachable model-state graph: exhaustive_ne elements, 2 lists
	const int ne = exhaustive_ne, nl = 2;
	std::map<std::string, std::vector<Op>> path;     // state -> shortest op path from the initial state
	std::vector<Model> frontier { initial (ne, nl) };
	path[frontier[0].key ()] = {};
	unsigned long states = 0, transitions = 0;
	std::string fail; std::vector<Op> fail_ops;
	std::vector<std::string> samples;
	while (!frontier.empty () && fail.empty ()) {
		std::vector<Model> next;
		for (const Model &m : frontier) {
			states++;
			const std::vector<Op> &pth = path[m.key ()];
			for (int k = 0; k < OP_NKINDS && fail.empty (); k++) for (int l = 0; l < nl; l++) for (int e = 0; e < ne; e++) for (int p = 0; p < ne; p++) {
				if (k != OP_SPLICE && p != 0) continue;
				if (k == OP_SPLICE && l != 0) continue;
				Op o { k, l, e, p };
				if (!legal (m, o)) continue;
				transitions++;
				std::vector<Op> ops = pth; ops.push_back (o);
				int r = run_sequence (ne, nl, ops, NULL);
				if (r >= 0) { fail = g_why; fail_ops = ops; break; }
				Model m2 = m; model_apply (m2, o);
				std::string key = m2.key ();
				if (!path.count (key)) { path[key] = ops; next.push_back (m2); if (samples.size () < 3 && ops.size () >= 4) { std::string s; for (auto &x : ops) s += op_str (x) + " "; samples.push_back (s + "=> " + key); } }
			}
			if (!fail.empty ()) break;
		}
		frontier.swap (next);
	}

	// ---- (b) rapidcheck: longer sequences over 8 elements / 3 lists
	unsigned long rc_cases = 0, rc_nontrivial = 0;
	std::set<std::string> distinct;
	bool ok = fail.empty ();
	std::vector<Op> rc_fail_ops;
	if (ok) {
		char params[120]; snprintf (params, sizeof params, "seed=%lu max_success=%ld max_size=200", seed, cases);
		setenv ("RC_PARAMS", params, 1);
		ok = rc::check ("dll operations agree with the array model after every operation", [&] () {
			auto raw = *rc::gen::container<std::vector<std::vector<unsigned>>> (rc::gen::container<std::vector<unsigned>> (4, rc::gen::inRange<unsigned> (0, 64)));
			std::vector<Op> ops;
			for (auto &q : raw) ops.push_back (decode_op (MAXE, MAXL, q[0], q[1], q[2], q[3]));
			bool nt = false;
			int r = run_sequence (MAXE, MAXL, ops, &nt);
			rc_cases++;
			if (nt) { std::string k; for (auto &x : ops) { k += (char) ('0' + x.kind); k += (char) ('0' + x.l); k += (char) ('a' + x.e); k += (char) ('a' + x.p); } if (distinct.insert (k).second) rc_nontrivial++; }
			if (r >= 0) { rc_fail_ops = ops; fail = g_why; }
			RC_ASSERT (r < 0);
		});
		if (!ok) fail_ops = rc_fail_ops;
	}
	struct timespec t1; clock_gettime (CLOCK_MONOTONIC, &t1);
	double wall = (double) (t1.tv_sec - t0.tv_sec) + 1e-9 * (double) (t1.tv_nsec - t0.tv_nsec);
	if (!ok && failout) {
		FILE *f = fopen (failout, "w");
		bool exh = rc_fail_ops.empty ();
		fprintf (f, "%d %d\n", exh ? ne : MAXE, exh ? nl : MAXL);
		for (auto &o : fail_ops) fprintf (f, "%d %d %d %d\n", o.kind, o.l, o.e, o.p);
		fclose (f);
	}
	FILE *f = out ? fopen (out, "w") : stdout;
	fprintf (f, "{\"ok\": %s, \"wall_s\": %.3f, \"exhaustive_states\": %lu, \"exhaustive_transitions\": %lu, \"exhaustive_elements\": %d, \"rc_cases\": %lu, \"rc_distinct_nontrivial\": %lu, \"failure\": \"%s\", \"samples\": [",
		 ok ? "true" : "false", wall, states, transitions, ne, rc_cases, rc_nontrivial, json_escape (fail).c_str ());
	for (size_t i = 0; i < samples.size (); i++) fprintf (f, "%s\"%s\"", i ? ", " : "", json_escape (samples[i]).c_str ());
	fprintf (f, "]}\n");
	if (out) fclose (f);
	return ok ? 0 : 1;
}
#endif
