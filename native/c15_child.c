/* C15 child: performs ONE timed nsync operation with the given deadline on the REAL library
   (libnsync.a when compiled as C, libnsync_cpp.a when compiled as C++) and reports what
   happened.  A crash or hang is therefore attributed to exactly this input.
   usage: c15_child <entry 0..8> <mode> <tv_sec> <tv_nsec> <event_after_ms>
     mode 0: absolute deadline {tv_sec,tv_nsec};  1: nsync_time_no_deadline;
          2: now + {tv_sec,tv_nsec};  3: now - {tv_sec,tv_nsec}
          4,5,6 (C++ build only): as 0,2,3, but the deadline is handed over as a
          std::chrono::system_clock::time_point through the C++ overloads of the timed
          entry points (epoch + tv_sec*1e9+tv_nsec ns; 5/6: system_clock::now() +/- that)
     event_after_ms >= 0: a helper thread produces the awaited event after that many ms
   prints: RESULT rc=<0 event|1 timeout|2 cancelled> now_sec=<..> now_nsec=<..> dl_sec=<..> dl_nsec=<..>  */
#include <stdio.h>
#include <stdlib.h>
#include <string.h>
#include <errno.h>
#include <pthread.h>
#include <unistd.h>
#include "nsync.h"

NSYNC_CPP_USING_

static nsync_mu mu;
static nsync_cv cv;
static int flag;
static nsync_note note;
static nsync_counter ctr;
static int entry;
static int event_after_ms;

#if defined(__cplusplus) && defined(NSYNC_USE_CPP11_TIMEPOINT)
#include <chrono>
static int use_tp;
static std::chrono::system_clock::time_point tp;
#define WITH_DL(with_dl, with_tp) (use_tp ? (with_tp) : (with_dl))
#else
#define WITH_DL(with_dl, with_tp) (with_dl)
#endif

static int flag_set (const void *v) { return (*(const int *) v != 0); }

static void *helper (void *arg) {
	(void) arg;
	usleep ((useconds_t) event_after_ms * 1000);
	switch (entry) {
	case 0: case 1: case 2: case 3:
		nsync_mu_lock (&mu); flag = 1; nsync_cv_broadcast (&cv); nsync_mu_unlock (&mu);
		break;
	case 4: case 6: case 7: nsync_note_notify (note); break;
	default: nsync_counter_add (ctr, -1); break;
	}
	return (NULL);
}

int main (int argc, char **argv) {
	nsync_time dl, now;
	int mode, rc = -1;
	long long sec; long nsec;
	pthread_t th;
	if (argc < 6) return (3);
	entry = atoi (argv[1]); mode = atoi (argv[2]); sec = atoll (argv[3]); nsec = atol (argv[4]); event_after_ms = atoi (argv[5]);
	nsync_mu_init (&mu); nsync_cv_init (&cv);
	note = nsync_note_new (NULL, nsync_time_no_deadline);
	ctr = nsync_counter_new (1);
	if (mode == 1) dl = nsync_time_no_deadline;
	else if (mode == 2 || mode == 3) {
		nsync_time delta = nsync_time_s_ns ((time_t) sec, (unsigned) nsec);
		dl = (mode == 3) ? nsync_time_sub (nsync_time_now (), delta) : nsync_time_add (nsync_time_now (), delta);
	} else if (mode == 0) dl = nsync_time_s_ns ((time_t) sec, (unsigned) nsec);
	else {
#if defined(__cplusplus) && defined(NSYNC_USE_CPP11_TIMEPOINT)
		/* the instant as a count of nanoseconds (the caller keeps it inside int64), converted to
		   nsync_time here by floor division only to REPORT it; the library gets the time_point */
		__int128 ns = (__int128) sec * 1000000000 + nsec, q;
		std::chrono::system_clock::time_point base;   /* the epoch */
		if (mode == 5 || mode == 6) {
			base = std::chrono::system_clock::now ();
			ns = (mode == 6 ? -ns : ns) + std::chrono::duration_cast<std::chrono::nanoseconds> (base.time_since_epoch ()).count ();
		}
		tp = std::chrono::system_clock::time_point (std::chrono::duration_cast<std::chrono::system_clock::duration> (std::chrono::nanoseconds ((long long) ns)));
		use_tp = 1;
		q = ns / 1000000000; if (ns % 1000000000 < 0) q--;
		memset (&dl, 0, sizeof (dl));
		dl.tv_sec = (time_t) q; dl.tv_nsec = (long) (ns - q * 1000000000);
#else
		return (3);
#endif
	}
	if (event_after_ms >= 0) pthread_create (&th, NULL, &helper, NULL);
	switch (entry) {
	case 0: /* cv wait */
	case 1: { /* cv wait with a (never notified) cancel note */
		int r = 0;
		nsync_note cn = (entry == 1) ? nsync_note_new (NULL, nsync_time_no_deadline) : NULL;
		nsync_mu_lock (&mu);
		while (!flag && r == 0) r = WITH_DL (nsync_cv_wait_with_deadline (&cv, &mu, dl, cn), nsync_cv_wait_with_deadline (&cv, &mu, tp, cn));
		nsync_mu_unlock (&mu);
		rc = (r == 0) ? 0 : (r == ETIMEDOUT ? 1 : 2);
		break;
	}
	case 2:
	case 3: {
		int r;
		nsync_note cn = (entry == 3) ? nsync_note_new (NULL, nsync_time_no_deadline) : NULL;
		nsync_mu_lock (&mu);
		r = WITH_DL (nsync_mu_wait_with_deadline (&mu, &flag_set, &flag, NULL, dl, cn), nsync_mu_wait_with_deadline (&mu, &flag_set, &flag, NULL, tp, cn));
		nsync_mu_unlock (&mu);
		rc = (r == 0) ? 0 : (r == ETIMEDOUT ? 1 : 2);
		break;
	}
	case 4: rc = WITH_DL (nsync_note_wait (note, dl), nsync_note_wait (note, tp)) ? 0 : 1; break;
	case 5: rc = (WITH_DL (nsync_counter_wait (ctr, dl), nsync_counter_wait (ctr, tp)) == 0) ? 0 : 1; break;
	case 6: { /* wait_n on one object */
		struct nsync_waitable_s w; struct nsync_waitable_s *pw = &w;
		w.v = note; w.funcs = &nsync_note_waitable_funcs;
		rc = (WITH_DL (nsync_wait_n (NULL, NULL, NULL, dl, 1, &pw), nsync_wait_n (NULL, NULL, NULL, tp, 1, &pw)) == 0) ? 0 : 1;
		break;
	}
	case 7:
	case 8: { /* wait_n on five objects (heap bookkeeping); the event is on the note (7) or the counter (8) */
		struct nsync_waitable_s w[5]; struct nsync_waitable_s *pw[5];
		nsync_note n2 = nsync_note_new (NULL, nsync_time_no_deadline);
		nsync_counter c2 = nsync_counter_new (3);
		int i, r;
		w[0].v = n2; w[0].funcs = &nsync_note_waitable_funcs;
		w[1].v = c2; w[1].funcs = &nsync_counter_waitable_funcs;
		w[2].v = note; w[2].funcs = &nsync_note_waitable_funcs;
		w[3].v = ctr; w[3].funcs = &nsync_counter_waitable_funcs;
		w[4].v = &cv; w[4].funcs = &nsync_cv_waitable_funcs;
		for (i = 0; i < 5; i++) pw[i] = &w[i];
		nsync_mu_lock (&mu);
		r = WITH_DL (nsync_wait_n (&mu, (void (*) (void *)) &nsync_mu_lock, (void (*) (void *)) &nsync_mu_unlock, dl, 5, pw),
			     nsync_wait_n (&mu, (void (*) (void *)) &nsync_mu_lock, (void (*) (void *)) &nsync_mu_unlock, tp, 5, pw));
		nsync_mu_unlock (&mu);
		rc = (r == 5) ? 1 : ((r == 2 || r == 3) ? 0 : 2);
		break;
	}
	default: return (3);
	}
	now = nsync_time_now ();
	printf ("RESULT rc=%d now_sec=%lld now_nsec=%ld dl_sec=%lld dl_nsec=%ld\n", rc,
		(long long) NSYNC_TIME_SEC (now), (long) NSYNC_TIME_NSEC (now), (long long) NSYNC_TIME_SEC (dl), (long) NSYNC_TIME_NSEC (dl));
	fflush (stdout);
	_exit (0);
}
