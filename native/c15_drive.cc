// C15 driver: every deadline value is handled (real libraries, one child process per case).
// Generates (library, entry point, deadline) triples - an exhaustive boundary grid plus
// rapidcheck-generated random deadlines - runs c15_child_c / c15_child_cpp for each and
// judges exit status, result and clock.
#include <rapidcheck.h>
#include <errno.h>
#include <limits.h>
#include <signal.h>
#include <stdint.h>
#include <stdio.h>
#include <stdlib.h>
#include <string.h>
#include <sys/wait.h>
#include <time.h>
#include <unistd.h>
#include <poll.h>
#include <set>
#include <string>
#include <vector>

enum { EXPIRED = 0, NEAR, FAR };
struct Case { int lib, entry, mode; long long sec; long nsec; int cls; int event_ms; };
static const char *entry_name[] = { "cv_wait", "cv_wait+note", "mu_wait", "mu_wait+note", "note_wait", "counter_wait", "wait_n(1)", "wait_n(5,note)", "wait_n(5,counter)" };
static const char *g_bin[2];
static std::string g_why;
static int g_watchdog_s = 20;

static std::string case_str (const Case &c) {
	char b[200];
	snprintf (b, sizeof b, "lib=%s entry=%s mode=%d%s deadline={%lld,%ld} class=%s event_after_ms=%d", c.lib ? "libnsync_cpp.a" : "libnsync.a", entry_name[c.entry], c.mode, c.mode >= 4 ? "(time_point overload)" : "", c.sec, c.nsec,
		  c.cls == EXPIRED ? "expired" : c.cls == NEAR ? "near-future" : "far/none", c.event_ms);
	return b;
}

// returns 0 ok, 1 violation, 2 watchdog
static int run_child_once (const Case &c, std::string *outtxt, int *status_out) {
	int pfd[2];
	if (pipe (pfd) != 0) return 1;
	pid_t pid = fork ();
	if (pid == 0) {
		char a1[16], a2[16], a3[32], a4[32], a5[16];
		dup2 (pfd[1], 1); close (pfd[0]); close (pfd[1]);
		snprintf (a1, sizeof a1, "%d", c.entry); snprintf (a2, sizeof a2, "%d", c.mode); snprintf (a3, sizeof a3, "%lld", c.sec); snprintf (a4, sizeof a4, "%ld", c.nsec); snprintf (a5, sizeof a5, "%d", c.event_ms);
		execl (g_bin[c.lib], g_bin[c.lib], a1, a2, a3, a4, a5, (char *) NULL);
		_exit (127);
	}
	close (pfd[1]);
	std::string txt; char buf[512];
	struct timespec t0; clock_gettime (CLOCK_MONOTONIC, &t0);
	bool timed_out = false;
	for (;;) {
		struct pollfd p = { pfd[0], POLLIN, 0 };
		struct timespec t1; clock_gettime (CLOCK_MONOTONIC, &t1);
		long left_ms = g_watchdog_s * 1000L - ((t1.tv_sec - t0.tv_sec) * 1000L + (t1.tv_nsec - t0.tv_nsec) / 1000000L);
		if (left_ms <= 0) { timed_out = true; break; }
		int r = poll (&p, 1, (int) left_ms);
		if (r > 0) { ssize_t n = read (pfd[0], buf, sizeof buf); if (n <= 0) break; txt.append (buf, (size_t) n); }
		else if (r == 0) { timed_out = true; break; }
	}
	close (pfd[0]);
	int status = 0;
	if (timed_out) { kill (pid, SIGKILL); waitpid (pid, &status, 0); *outtxt = txt; return 2; }
	waitpid (pid, &status, 0);
	*outtxt = txt; *status_out = status;
	return 0;
}

static bool judge (const Case &c) {
	std::string txt; int status = 0, r = 0;
	for (int attempt = 0; attempt < 3; attempt++) {
		r = run_child_once (c, &txt, &status);
		if (r != 2) break;   // a watchdog hit is re-run; only 3/3 hangs are reported
	}
	char w[400];
	if (r == 2) { snprintf (w, sizeof w, "HANG: no result within %d s in 3 of 3 runs: %s", g_watchdog_s, case_str (c).c_str ()); g_why = w; return false; }
	if (WIFSIGNALED (status)) { snprintf (w, sizeof w, "CRASH: child killed by signal %d: %s", WTERMSIG (status), case_str (c).c_str ()); g_why = w; return false; }
	if (!WIFEXITED (status) || WEXITSTATUS (status) != 0) { snprintf (w, sizeof w, "child exited with status %d: %s", WEXITSTATUS (status), case_str (c).c_str ()); g_why = w; return false; }
	int rc = -1; long long ns = 0, ds = 0; long nn = 0, dn = 0;
	if (sscanf (txt.c_str (), "RESULT rc=%d now_sec=%lld now_nsec=%ld dl_sec=%lld dl_nsec=%ld", &rc, &ns, &nn, &ds, &dn) != 5) { g_why = "child produced no RESULT line: " + case_str (c); return false; }
	switch (c.cls) {
	case EXPIRED:
		if (rc != 1) { snprintf (w, sizeof w, "expired deadline did not produce the timeout result (rc=%d): %s", rc, case_str (c).c_str ()); g_why = w; return false; }
		break;
	case NEAR:
		if (rc != 1) { snprintf (w, sizeof w, "no event was produced but the call did not time out (rc=%d): %s", rc, case_str (c).c_str ()); g_why = w; return false; }
		if (ns < ds || (ns == ds && nn < dn)) { snprintf (w, sizeof w, "timed out EARLY: returned at {%lld,%ld}, deadline {%lld,%ld}: %s", ns, nn, ds, dn, case_str (c).c_str ()); g_why = w; return false; }
		break;
	default:
		if (rc != 0) { snprintf (w, sizeof w, "far / no deadline: the event was produced after %d ms but the call reported rc=%d: %s", c.event_ms, rc, case_str (c).c_str ()); g_why = w; return false; }
		break;
	}
	return true;
}

static std::string json_escape (const std::string &s) { std::string o; for (char ch : s) { if (ch == '"' || ch == '\\') { o += '\\'; o += ch; } else if (ch == '\n') o += "\\n"; else o += ch; } return o; }

int main (int argc, char **argv) {
	const char *out = NULL, *replay = NULL, *failout = NULL; long cases = 100; unsigned long seed = 1; int shard = 0, nshards = 1;
	for (int i = 1; i < argc; i++) {
		std::string a = argv[i];
		if (a == "--out") out = argv[++i]; else if (a == "--cases") cases = atol (argv[++i]); else if (a == "--seed") seed = strtoul (argv[++i], 0, 0);
		else if (a == "--child-c") g_bin[0] = argv[++i]; else if (a == "--child-cpp") g_bin[1] = argv[++i];
		else if (a == "--shard") shard = atoi (argv[++i]); else if (a == "--nshards") nshards = atoi (argv[++i]);
		else if (a == "--replay") replay = argv[++i]; else if (a == "--fail-out") failout = argv[++i]; else if (a == "--watchdog") g_watchdog_s = atoi (argv[++i]);
	}
	if (!g_bin[0] || !g_bin[1]) { fprintf (stderr, "need --child-c and --child-cpp\n"); return 2; }
	struct timespec t0; clock_gettime (CLOCK_MONOTONIC, &t0);
	if (replay) {
		FILE *f = fopen (replay, "r"); if (!f) { perror (replay); return 2; }
		Case c;
		if (fscanf (f, "%d %d %d %lld %ld %d %d", &c.lib, &c.entry, &c.mode, &c.sec, &c.nsec, &c.cls, &c.event_ms) != 7) return 2;
		fclose (f);
		printf ("%s\n", case_str (c).c_str ());
		if (!judge (c)) { printf ("REPLAY property=C15 FAILS: %s\n", g_why.c_str ()); return 1; }
		printf ("REPLAY property=C15 passes\n"); return 0;
	}
	// ---- exhaustive boundary grid
	struct Spec { int mode; long long sec; long nsec; int cls; const char *name; };
	static const Spec grid[] = {
		{ 0, 0, 0, EXPIRED, "zero" }, { 0, 0, 1, EXPIRED, "+1ns" }, { 0, -1, 999999999, EXPIRED, "-1ns" }, { 0, 1, 0, EXPIRED, "+1s" }, { 0, -1, 0, EXPIRED, "-1s" },
		{ 0, -(1LL << 31), 0, EXPIRED, "-2^31 s" }, { 0, -(1LL << 62), 0, EXPIRED, "-2^62 s" }, { 0, LLONG_MIN + 1, 0, EXPIRED, "INT64_MIN+1 s" },
		{ 3, 0, 30000000, EXPIRED, "now-30ms" }, { 3, 2, 0, EXPIRED, "now-2s" },
		{ 2, 0, 40000000, NEAR, "now+40ms" }, { 2, 0, 20000000, NEAR, "now+20ms" },
		{ 0, LLONG_MAX, 999999998, FAR, "max-1ns" }, { 0, LLONG_MAX - 1, 999999999, FAR, "max-1s" }, { 1, 0, 0, FAR, "no_deadline" }, { 2, 1000, 0, FAR, "now+1000s" },
	};
	// the same instants handed over as std::chrono::system_clock::time_point (C++ build only; modes 4,5,6 = 0,2,3 through
	// the C++ overloads).  A time_point is a count of ns in int64, so the range is +/-292 years around the epoch.
	static const Spec tpgrid[] = {
		{ 4, 0, 0, EXPIRED, "tp epoch" }, { 4, 0, 1, EXPIRED, "tp +1ns" }, { 4, -1, 999999999, EXPIRED, "tp -1ns" }, { 4, 1, 0, EXPIRED, "tp +1s" }, { 4, -1, 0, EXPIRED, "tp -1s" },
		{ 4, -1, 500000000, EXPIRED, "tp -0.5s" }, { 4, -2, 500000000, EXPIRED, "tp -1.5s" }, { 4, -(1LL << 31), 0, EXPIRED, "tp -2^31 s" }, { 4, -9223372037LL, 145224192, EXPIRED, "tp min" },
		{ 6, 0, 30000000, EXPIRED, "tp now-30ms" }, { 6, 2, 0, EXPIRED, "tp now-2s" },
		{ 5, 0, 40000000, NEAR, "tp now+40ms" }, { 5, 0, 20000000, NEAR, "tp now+20ms" },
		{ 4, 9223372036LL, 854775807, FAR, "tp max" }, { 4, 9223372035LL, 0, FAR, "tp max-1.85s" }, { 5, 1000, 0, FAR, "tp now+1000s" },
	};
	const int nspec = (int) (sizeof (grid) / sizeof (grid[0]));
	static_assert (sizeof (grid) == sizeof (tpgrid), "both grids have the same number of specs");
	unsigned long evaluations = 0, nontrivial = 0; bool ok = true; std::string fail; Case failc; memset (&failc, 0, sizeof failc);
	std::vector<std::string> samples; std::set<std::string> distinct;
	int idx = 0;
	for (int lib = 0; lib < 3 && ok; lib++) for (int e = 0; e < 9 && ok; e++) for (int s = 0; s < nspec && ok; s++, idx++) {
		if ((idx + idx / nspec) % nshards != shard) continue;   // rotate per row: a column of hanging cases is spread over all shards
		const Spec *g = (lib == 2) ? tpgrid : grid;
		Case c { lib == 2 ? 1 : lib, e, g[s].mode, g[s].sec, g[s].nsec, g[s].cls, g[s].cls == FAR ? 30 : -1 };
		evaluations++;
		// non-trivial: a deadline the existing suite does not use (it uses 0, no_deadline and now+small)
		if (lib == 2 || !(s == 0 || s == 14 || g[s].cls == NEAR)) { nontrivial++; distinct.insert (case_str (c)); }
		if (samples.size () < 3 && (idx % 37) == 5) samples.push_back (case_str (c));
		if (!judge (c)) { ok = false; fail = g_why; failc = c; }
	}
	// ---- rapidcheck: random deadlines
	if (ok && cases > 0) {
		char params[120]; snprintf (params, sizeof params, "seed=%lu max_success=%ld", seed, cases);
		setenv ("RC_PARAMS", params, 1);
		bool failed_once = false;   // no shrinking: a case is seven small numbers, and every failing candidate may cost 3 watchdog periods
		ok = rc::check ("every deadline value is handled", [&] () {
			if (failed_once) return;
			Case c;
			c.lib = *rc::gen::inRange (0, 2); c.entry = *rc::gen::inRange (0, 9);
			int kind = *rc::gen::inRange (0, 6);
			long long mag = (long long) (*rc::gen::arbitrary<uint64_t> () >> *rc::gen::inRange (1, 63));
			c.nsec = *rc::gen::inRange<long> (0, 1000000000);
			time_t now = time (NULL);
			switch (kind) {
			case 0: c.mode = 0; c.sec = -mag; c.cls = EXPIRED; break;                                  // before the epoch
			case 1: c.mode = 0; c.sec = mag % (now - 2 > 0 ? now - 2 : 1); c.cls = EXPIRED; break;  // between the epoch and now
			case 2: c.mode = 3; c.sec = mag % 100000; c.cls = EXPIRED; break;                          // now - d
			case 3: c.mode = 2; c.sec = 0; c.nsec = 20000000 + c.nsec % 40000000; c.cls = NEAR; break; // now + 20..60 ms
			case 4: c.mode = 0; c.sec = now + 1000 + mag % (LLONG_MAX - now - 2000); c.cls = FAR; break; // far future
			default: c.mode = 2; c.sec = 100 + mag % 1000000; c.cls = FAR; break;
			}
			if (c.lib == 1 && *rc::gen::inRange (0, 2) == 1) {
				// the same instant through the time_point overloads: modes 4,5,6 and an int64 count of ns
				const long long lim = 9223372036LL;
				switch (kind) {
				case 0: c.mode = 4; c.sec = (mag % 3 == 0) ? -1 : -(mag % lim) - 1; break;   // a third of them inside the last second before the epoch
				case 1: c.mode = 4; break;
				case 2: c.mode = 6; break;
				case 3: c.mode = 5; break;
				case 4: c.mode = 4; c.sec = now + 1000 + mag % (lim - now - 2000); break;
				default: c.mode = 5; break;
				}
			}
			c.event_ms = (c.cls == FAR) ? 30 : -1;
			evaluations++;
			if (c.cls != NEAR) { nontrivial++; distinct.insert (case_str (c)); }
			if (samples.size () < 5 && evaluations % 23 == 0) samples.push_back (case_str (c));
			bool pass = judge (c);
			if (!pass) { fail = g_why; failc = c; failed_once = true; }
			RC_ASSERT (pass);
		});
	}
	struct timespec t1; clock_gettime (CLOCK_MONOTONIC, &t1);
	double wall = (double) (t1.tv_sec - t0.tv_sec) + 1e-9 * (double) (t1.tv_nsec - t0.tv_nsec);
	if (!ok && failout) { FILE *f = fopen (failout, "w"); fprintf (f, "%d %d %d %lld %ld %d %d\n", failc.lib, failc.entry, failc.mode, failc.sec, failc.nsec, failc.cls, failc.event_ms); fclose (f); }
	FILE *f = out ? fopen (out, "w") : stdout;
	fprintf (f, "{\"ok\": %s, \"wall_s\": %.3f, \"evaluations\": %lu, \"distinct_nontrivial\": %lu, \"failure\": \"%s\", \"fail_entry\": \"%s\", \"fail_lib\": %d, \"samples\": [", ok ? "true" : "false", wall, evaluations, (unsigned long) distinct.size (),
		 json_escape (fail).c_str (), ok ? "" : entry_name[failc.entry], failc.lib);
	for (size_t i = 0; i < samples.size (); i++) fprintf (f, "%s\"%s\"", i ? ", " : "", json_escape (samples[i]).c_str ());
	fprintf (f, "]}\n");
	if (out) fclose (f);
	(void) nontrivial;
	return ok ? 0 : 1;
}
