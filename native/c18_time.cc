// C18: nsync_time arithmetic is exact on normalized values.
// Both builds are linked into one binary: the C file (platform/posix/src/time_rep.c +
// internal/time_internal.c compiled as C: ::nsync_time_add ...) and the C++ file
// (platform/c++11/src/time_rep_timespec.cc + time_internal.c compiled as C++: nsync::nsync_time_add ...).
// Oracle: 128-bit integer arithmetic on seconds*1e9+nanoseconds.
// (a) exhaustive boundary grid, (b) rapidcheck over normalized pairs whose sum / difference fits in time_t,
// (c) the same checks as a libFuzzer target (-DC18_FUZZ).
#include <stdint.h>
#include <stdio.h>
#include <stdlib.h>
#include <string.h>
#include <time.h>
#include <limits.h>
#include <string>
#include <vector>
#include <set>

typedef struct timespec ts_t;
// C build
extern "C" {
ts_t nsync_time_add (ts_t a, ts_t b);
ts_t nsync_time_sub (ts_t a, ts_t b);
int nsync_time_cmp (ts_t a, ts_t b);
ts_t nsync_time_ms (unsigned ms);
ts_t nsync_time_us (unsigned us);
ts_t nsync_time_s_ns (time_t s, unsigned ns);
extern const ts_t nsync_time_no_deadline;
extern const ts_t nsync_time_zero;
}
// C++ build
namespace nsync {
ts_t nsync_time_add (ts_t a, ts_t b);
ts_t nsync_time_sub (ts_t a, ts_t b);
int nsync_time_cmp (ts_t a, ts_t b);
ts_t nsync_time_ms (unsigned ms);
ts_t nsync_time_us (unsigned us);
ts_t nsync_time_s_ns (time_t s, unsigned ns);
extern const ts_t nsync_time_no_deadline;
extern const ts_t nsync_time_zero;
}

typedef __int128 i128;
static const i128 NS = 1000000000;
static i128 val (ts_t t) { return (i128) t.tv_sec * NS + t.tv_nsec; }
static bool normalized (ts_t t) { return t.tv_nsec >= 0 && t.tv_nsec < 1000000000; }

struct Api {
	const char *name;
	ts_t (*add) (ts_t, ts_t); ts_t (*sub) (ts_t, ts_t); int (*cmp) (ts_t, ts_t);
	ts_t (*ms) (unsigned); ts_t (*us) (unsigned); ts_t (*s_ns) (time_t, unsigned);
	const ts_t *no_deadline, *zero;
};
static Api apis[2] = {
	{ "C", &::nsync_time_add, &::nsync_time_sub, &::nsync_time_cmp, &::nsync_time_ms, &::nsync_time_us, &::nsync_time_s_ns, &::nsync_time_no_deadline, &::nsync_time_zero },
	{ "C++", &nsync::nsync_time_add, &nsync::nsync_time_sub, &nsync::nsync_time_cmp, &nsync::nsync_time_ms, &nsync::nsync_time_us, &nsync::nsync_time_s_ns, &nsync::nsync_time_no_deadline, &nsync::nsync_time_zero },
};

static std::string g_why;
static int sign (i128 x) { return (x > 0) - (x < 0); }
static std::string tstr (ts_t t) { char b[64]; snprintf (b, sizeof b, "{%lld,%ld}", (long long) t.tv_sec, (long) t.tv_nsec); return b; }
// "barring overflow of the seconds field": the seconds arithmetic the functions perform stays inside time_t
static bool fits_sec (i128 s) { return s >= (i128) LLONG_MIN && s <= (i128) LLONG_MAX; }

static bool check_pair (const Api &A, ts_t a, ts_t b) {
	char w[300];
	int c = A.cmp (a, b);
	if ((c > 0) - (c < 0) != sign (val (a) - val (b))) { snprintf (w, sizeof w, "[%s] cmp(%s,%s)=%d", A.name, tstr (a).c_str (), tstr (b).c_str (), c); g_why = w; return false; }
	int c2 = A.cmp (b, a);
	if (((c > 0) - (c < 0)) != -((c2 > 0) - (c2 < 0))) { snprintf (w, sizeof w, "[%s] cmp not antisymmetric on %s,%s", A.name, tstr (a).c_str (), tstr (b).c_str ()); g_why = w; return false; }
	if (fits_sec ((i128) a.tv_sec + b.tv_sec) && fits_sec ((i128) a.tv_sec + b.tv_sec + 1)) {
		ts_t s = A.add (a, b);
		if (!normalized (s) || val (s) != val (a) + val (b)) { snprintf (w, sizeof w, "[%s] add(%s,%s)=%s", A.name, tstr (a).c_str (), tstr (b).c_str (), tstr (s).c_str ()); g_why = w; return false; }
		// (a+b)-b == a
		if (fits_sec ((i128) s.tv_sec - b.tv_sec) && fits_sec ((i128) s.tv_sec - b.tv_sec - 1)) {
			ts_t d = A.sub (s, b);
			if (!normalized (d) || val (d) != val (a)) { snprintf (w, sizeof w, "[%s] (a+b)-b != a for a=%s b=%s: %s", A.name, tstr (a).c_str (), tstr (b).c_str (), tstr (d).c_str ()); g_why = w; return false; }
		}
	}
	if (fits_sec ((i128) a.tv_sec - b.tv_sec) && fits_sec ((i128) a.tv_sec - b.tv_sec - 1)) {
		ts_t d = A.sub (a, b);
		if (!normalized (d) || val (d) != val (a) - val (b)) { snprintf (w, sizeof w, "[%s] sub(%s,%s)=%s", A.name, tstr (a).c_str (), tstr (b).c_str (), tstr (d).c_str ()); g_why = w; return false; }
	}
	return true;
}
static bool check_triple (const Api &A, ts_t a, ts_t b, ts_t c) {
	// cmp is a total order: transitivity
	int ab = A.cmp (a, b), bc = A.cmp (b, c), ac = A.cmp (a, c);
	if (ab <= 0 && bc <= 0 && ac > 0) { g_why = std::string ("[") + A.name + "] cmp not transitive on " + tstr (a) + tstr (b) + tstr (c); return false; }
	return true;
}
static bool check_unsigned (const Api &A, unsigned x) {
	char w[200];
	ts_t m = A.ms (x), u = A.us (x);
	if (!normalized (m) || val (m) != (i128) x * 1000000) { snprintf (w, sizeof w, "[%s] nsync_time_ms(%u)=%s", A.name, x, tstr (m).c_str ()); g_why = w; return false; }
	if (!normalized (u) || val (u) != (i128) x * 1000) { snprintf (w, sizeof w, "[%s] nsync_time_us(%u)=%s", A.name, x, tstr (u).c_str ()); g_why = w; return false; }
	return true;
}
static bool check_s_ns (const Api &A, time_t s, unsigned ns) {
	ts_t t = A.s_ns (s, ns);
	if (t.tv_sec != s || (unsigned long) t.tv_nsec != ns) { g_why = std::string ("[") + A.name + "] nsync_time_s_ns wrong for " + tstr (t); return false; }
	if (s >= 0 && ns < 1000000000) {
		if (A.cmp (*A.zero, t) > 0 || A.cmp (t, *A.no_deadline) > 0) { g_why = std::string ("[") + A.name + "] zero <= t <= no_deadline fails for " + tstr (t); return false; }
	}
	return true;
}

static const long long SEC[] = { 0, 1, -1, 2, -2, (1LL << 31), -(1LL << 31), (1LL << 31) - 1, (1LL << 40), -(1LL << 40), (1LL << 62), -(1LL << 62), LLONG_MAX - 1, LLONG_MIN + 2 };
static const long NSEC[] = { 0, 1, 500000000, 999999999 };
static const unsigned UGRID[] = { 0, 1, 999, 1000, 1001, 999999, 1000000, 1000001, 4294966, 4294967, 4294968, 2147483647u, 2147483648u, 4294967294u, 4294967295u, 4000000000u, 4294000, 4295000 };

static ts_t mk (long long s, long n) { ts_t t; memset (&t, 0, sizeof t); t.tv_sec = (time_t) s; t.tv_nsec = n; return t; }

#if defined(C18_FUZZ)
extern "C" int LLVMFuzzerTestOneInput (const uint8_t *d, size_t n) {
	if (n < 28) return 0;
	long long s[3]; uint32_t ns[3]; unsigned u;
	memcpy (s, d, 24 <= n ? 16 : 0);
	memcpy (&s[0], d, 8); memcpy (&s[1], d + 8, 8); memcpy (&ns[0], d + 16, 4); memcpy (&ns[1], d + 20, 4); memcpy (&u, d + 24, 4);
	ts_t a = mk (s[0], ns[0] % 1000000000), b = mk (s[1], ns[1] % 1000000000);
	for (auto &A : apis) {
		if (!check_pair (A, a, b) || !check_unsigned (A, u) || !check_s_ns (A, (time_t) s[0], ns[0])) { fprintf (stderr, "C18 violation: %s\n", g_why.c_str ()); __builtin_trap (); }
	}
	return 0;
}
#else
#include <rapidcheck.h>
static std::string json_escape (const std::string &s) { std::string o; for (char c : s) { if (c == '"' || c == '\\') { o += '\\'; o += c; } else o += c; } return o; }
int main (int argc, char **argv) {
	const char *out = NULL, *replay = NULL, *failout = NULL; long cases = 100000; unsigned long seed = 1;
	for (int i = 1; i < argc; i++) {
		std::string a = argv[i];
		if (a == "--out") out = argv[++i]; else if (a == "--cases") cases = atol (argv[++i]); else if (a == "--seed") seed = strtoul (argv[++i], 0, 0);
		else if (a == "--replay") replay = argv[++i]; else if (a == "--fail-out") failout = argv[++i];
	}
	struct timespec t0; clock_gettime (CLOCK_MONOTONIC, &t0);
	if (replay) {
		FILE *f = fopen (replay, "r"); if (!f) { perror (replay); return 2; }
		long long s0, s1; long n0, n1; unsigned u;
		if (fscanf (f, "%lld %ld %lld %ld %u", &s0, &n0, &s1, &n1, &u) != 5) return 2;
		fclose (f);
		bool ok = true;
		for (auto &A : apis) ok = ok && check_pair (A, mk (s0, n0), mk (s1, n1)) && check_unsigned (A, u) && check_s_ns (A, (time_t) s0, (unsigned) n0);
		if (!ok) { printf ("REPLAY property=C18 FAILS: %s\n", g_why.c_str ()); return 1; }
		printf ("REPLAY property=C18 passes\n"); return 0;
	}
	unsigned long grid = 0, grid_nontrivial = 0; bool ok = true; std::string fail; long long fs0 = 0, fs1 = 0; long fn0 = 0, fn1 = 0; unsigned fu = 0;
	std::vector<std::string> samples;
	// (a) exhaustive boundary grid: all pairs (and the cmp transitivity triples on a sub-grid)
	std::vector<ts_t> pts;
	for (long long s : SEC) for (long n : NSEC) pts.push_back (mk (s, n));
	for (auto &A : apis) {
		for (auto &a : pts) for (auto &b : pts) {
			grid++;
			if (a.tv_nsec + b.tv_nsec >= 1000000000 || a.tv_nsec < b.tv_nsec) grid_nontrivial++;   // carry / borrow
			if (ok && !check_pair (A, a, b)) { ok = false; fail = g_why; fs0 = a.tv_sec; fn0 = a.tv_nsec; fs1 = b.tv_sec; fn1 = b.tv_nsec; }
		}
		for (size_t i = 0; i < pts.size (); i += 3) for (size_t j = 0; j < pts.size (); j += 2) for (size_t k = 0; k < pts.size (); k += 5) { grid++; if (ok && !check_triple (A, pts[i], pts[j], pts[k])) { ok = false; fail = g_why; } }
		for (unsigned u : UGRID) { grid++; grid_nontrivial++; if (ok && !check_unsigned (A, u)) { ok = false; fail = g_why; fu = u; } }
		for (auto &a : pts) { grid++; if (ok && !check_s_ns (A, a.tv_sec, (unsigned) a.tv_nsec)) { ok = false; fail = g_why; } }
	}
	samples.push_back ("grid: seconds {0,+-1,+-2,+-2^31,2^31-1,+-2^40,+-2^62,max-1,min+2} x nanoseconds {0,1,5e8,1e9-1}, all pairs, both builds");
	// (b) rapidcheck
	unsigned long rc_cases = 0; std::set<std::pair<long long, long long>> distinct;
	if (ok) {
		char params[120]; snprintf (params, sizeof params, "seed=%lu max_success=%ld", seed, cases);
		setenv ("RC_PARAMS", params, 1);
		ok = rc::check ("time arithmetic agrees with 128-bit integers", [&] () {
			auto sh0 = *rc::gen::inRange (0, 63), sh1 = *rc::gen::inRange (0, 63);
			long long s0 = *rc::gen::arbitrary<long long> () >> sh0, s1 = *rc::gen::arbitrary<long long> () >> sh1;
			long n0 = *rc::gen::inRange<long> (0, 1000000000), n1 = *rc::gen::inRange<long> (0, 1000000000);
			unsigned u = *rc::gen::arbitrary<unsigned> ();
			rc_cases++;
			// (the set only feeds the 'distinct non-trivial cases' figure of the evidence; capped, because under ASan 3 M
			// nodes cost 5 GB per shard and sixteen shards exhausted the machine's memory in the thorough tier)
			if ((n0 + n1 >= 1000000000 || n0 < n1) && distinct.size () < 1500000) distinct.insert ({ s0 ^ n0, s1 ^ n1 });
			bool pass = true;
			for (auto &A : apis) pass = pass && check_pair (A, mk (s0, n0), mk (s1, n1)) && check_unsigned (A, u) && check_s_ns (A, (time_t) s0, (unsigned) n0);
			if (!pass) { fail = g_why; fs0 = s0; fn0 = n0; fs1 = s1; fn1 = n1; fu = u; }
			if (samples.size () < 4 && rc_cases % 1000 == 7) { char b[200]; snprintf (b, sizeof b, "a={%lld,%ld} b={%lld,%ld} u=%u", s0, n0, s1, n1, u); samples.push_back (b); }
			RC_ASSERT (pass);
		});
	}
	struct timespec t1; clock_gettime (CLOCK_MONOTONIC, &t1);
	double wall = (double) (t1.tv_sec - t0.tv_sec) + 1e-9 * (double) (t1.tv_nsec - t0.tv_nsec);
	if (!ok && failout) { FILE *f = fopen (failout, "w"); fprintf (f, "%lld %ld %lld %ld %u\n", fs0, fn0, fs1, fn1, fu); fclose (f); }
	FILE *f = out ? fopen (out, "w") : stdout;
	fprintf (f, "{\"ok\": %s, \"wall_s\": %.3f, \"grid_cases\": %lu, \"grid_nontrivial\": %lu, \"rc_cases\": %lu, \"rc_distinct_nontrivial\": %lu, \"failure\": \"%s\", \"samples\": [",
		 ok ? "true" : "false", wall, grid, grid_nontrivial, rc_cases, (unsigned long) distinct.size (), json_escape (fail).c_str ());
	for (size_t i = 0; i < samples.size (); i++) fprintf (f, "%s\"%s\"", i ? ", " : "", json_escape (samples[i]).c_str ());
	fprintf (f, "]}\n");
	if (out) fclose (f);
	return ok ? 0 : 1;
}
#endif
